#!/bin/sh
# setup_cmd: offline install of icontract beside the framework (git-ignored .deps)
set -e
cd "$(dirname "$0")"
if [ ! -d .deps/icontract ]; then
  PIP_NO_INDEX=1 /venv/bin/pip install --quiet --no-index --find-links /opt/veriftools/wheels --target .deps icontract >/dev/null 2>&1 || \
  PIP_NO_INDEX=1 /venv/bin/python -m pip install --quiet --no-index --find-links /opt/veriftools/wheels --target .deps icontract
fi
/venv/bin/python -c "import sys; sys.path.insert(0,'.deps'); import icontract; print('icontract', icontract.__version__)"
