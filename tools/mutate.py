#!/usr/bin/env python3
"""Monitor validation: apply a realistic property-breaking edit to a scratch copy of
/repo (outside /repo and /verif), confirm the pinned test-suite still passes there,
run the named checks against the copy (LABREA_REPO) and report which fire.

usage: tools/mutate.py [-k substring] [--tier quick] [--no-tests]
Mutants live in mutants/mutants.json: {name, file, old, new, expect: [ids]}.
Results are appended to mutants/results.json (not a registered check).
"""
import argparse
import json
import os
import shutil
import subprocess
import sys
import tempfile
import time

HERE = os.path.dirname(os.path.dirname(os.path.abspath(__file__)))


def main():
    ap = argparse.ArgumentParser()
    ap.add_argument("-k", default="")
    ap.add_argument("--tier", default="quick")
    ap.add_argument("--no-tests", action="store_true")
    ap.add_argument("--checks", default="")
    a = ap.parse_args()
    muts = json.load(open(os.path.join(HERE, "mutants", "mutants.json")))
    res_path = os.path.join(HERE, "mutants", "results.json")
    results = json.load(open(res_path)) if os.path.exists(res_path) else {}
    for m in muts:
        if a.k and a.k not in m["name"]:
            continue
        tmp = tempfile.mkdtemp(prefix="labrea-mut-")
        try:
            shutil.copytree("/repo/labrea", os.path.join(tmp, "labrea"))
            shutil.copytree("/repo/tests", os.path.join(tmp, "tests"))
            for f in ("pyproject.toml",):
                shutil.copy(os.path.join("/repo", f), tmp)
            edits = m.get("edits") or [{"file": m["file"], "old": m["old"], "new": m["new"]}]
            ok = True
            for e in edits:
                p = os.path.join(tmp, e["file"])
                s = open(p).read()
                if s.count(e["old"]) != 1:
                    print(f"[{m['name']}] pattern found {s.count(e['old'])} times in {e['file']}: SKIP")
                    ok = False
                    break
                open(p, "w").write(s.replace(e["old"], e["new"]))
            if not ok:
                continue
            tests = "skipped"
            if not a.no_tests:
                r = subprocess.run(["/venv/bin/python", "-m", "pytest", "-q", "-p", "no:cacheprovider", "-x", "tests"],
                                   cwd=tmp, capture_output=True, text=True, timeout=600)
                tests = "pass" if r.returncode == 0 else "FAIL: " + r.stdout.strip().splitlines()[-1]
            out = {}
            checks = a.checks.split(",") if a.checks else m["expect"]
            for c in checks:
                t0 = time.time()
                env = dict(os.environ, LABREA_REPO=tmp, LVF_OUT=os.path.join(tmp, "out"))
                r = subprocess.run([os.path.join(HERE, "check"), c, "--tier", a.tier], cwd=HERE, env=env,
                                   capture_output=True, text=True, timeout=3600)
                first = next((l for l in r.stdout.splitlines() if l.strip().startswith("monitor=")), "").strip()
                out[c] = {"rc": r.returncode, "s": round(time.time() - t0, 1), "first": first[:200]}
            caught = [c for c, v in out.items() if v["rc"] == 1 and v["first"]]
            print(f"[{m['name']}] tests={tests} caught_by={caught} missed={[c for c in checks if c not in caught]}")
            for c, v in out.items():
                print(f"    {c}: rc={v['rc']} {v['s']}s {v['first']}")
            results[m["name"]] = {"tests": tests, "checks": out, "tier": a.tier}
        finally:
            shutil.rmtree(tmp, ignore_errors=True)
    json.dump(results, open(res_path, "w"), indent=1)


if __name__ == "__main__":
    sys.exit(main())
