#!/usr/bin/env python3
"""Merge LVF_COVERAGE files and list the library lines no check reached.

usage: LVF_COVERAGE=/tmp/lvfcov tools/sweep.sh quick 0 ; /venv/bin/python tools/covreport.py /tmp/lvfcov [repo]
Diagnostic only (guides where to widen workloads); no verdict depends on it.
"""
import glob
import json
import os
import sys


def executable_lines(path):
    src = open(path).read()
    code = compile(src, path, "exec")
    lines = set()

    def walk(c):
        for _s, _e, ln in c.co_lines():
            if ln is not None:
                lines.add(ln)
        for k in c.co_consts:
            if hasattr(k, "co_lines"):
                walk(k)

    walk(code)
    return lines, src.splitlines()


def main():
    d = sys.argv[1]
    repo = sys.argv[2] if len(sys.argv) > 2 else "/repo"
    seen = set()
    for f in glob.glob(os.path.join(d, "cov-*.json")):
        seen |= {tuple(x) for x in json.load(open(f))}
    total = hit = 0
    for path in sorted(glob.glob(os.path.join(repo, "labrea", "*.py"))):
        name = os.path.basename(path)
        lines, src = executable_lines(path)
        # docstring-only and def/class header lines are executed at import; keep everything the compiler lists
        got = {ln for (n, ln) in seen if n == name}
        miss = sorted(lines - got)
        total += len(lines)
        hit += len(lines & got)
        print(f"{name}: {len(lines & got)}/{len(lines)} lines reached")
        run = []
        for ln in miss:
            text = src[ln - 1].strip() if ln - 1 < len(src) else ""
            if text.startswith(('"""', "'''", "@overload", "...")) or text in ("", "..."):
                continue
            print(f"    {ln}: {text[:110]}")
    print(f"TOTAL {hit}/{total}")


if __name__ == "__main__":
    main()
