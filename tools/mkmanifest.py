#!/usr/bin/env python3
"""Regenerate MANIFEST.json from tools/checks.json (claimed checks) + properties.jsonl."""
import json, os
here = os.path.dirname(os.path.dirname(os.path.abspath(__file__)))
props = [json.loads(l) for l in open(os.path.join(here, "properties.jsonl"))]
spec = json.load(open(os.path.join(here, "tools", "checks.json")))
checks, na = [], []
for p in props:
    pid = p["id"]
    c = spec["checks"].get(pid)
    if c is None:
        na.append({"property_id": pid, "reason": spec["not_applicable"].get(pid, "check not built yet (work in progress)")})
        continue
    checks.append({
        "property_id": pid,
        "quick_cmd": f"./check {pid} --tier quick",
        "thorough_cmd": f"./check {pid} --tier thorough",
        "evidence_file": f"evidence/{pid}.json",
        "replay_cmd_template": f"./check {pid} --replay {{path}}",
        "engine": "lvf",
        "level_claimed": {"category": c["category"], "text": c["text"], "design_ref": c.get("design_ref", f"DESIGN.md §3 {pid}")},
        "level_note": c["note"],
        "technique": c["technique"],
    })
m = {
    "version": 1,
    "setup_cmd": "./setup.sh",
    "hooks": spec["hooks"],
    "engines": [{"name": "lvf", "path": "lvf/", "serves_properties": sorted(spec["checks"]),
                 "kind_free_text": "runtime monitoring: generated workloads on the real labrea code, request-level tap through labrea's own runtime, probe callables, recording/faulty cache backends, controlled thread scheduler (sys.settrace), icontract contracts, independent reference interpreter as oracle"}],
    "checks": checks,
    "not_applicable": na,
    "notes": spec.get("notes", ""),
}
json.dump(m, open(os.path.join(here, "MANIFEST.json"), "w"), indent=1)
print("checks:", [c["property_id"] for c in checks], "n/a:", [n["property_id"] for n in na])
