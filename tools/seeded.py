#!/usr/bin/env python3
"""Confirm a seeded property-breaking change and run the checks against it.

usage: tools/seeded.py <ID-dir under seeded/ or /tmp/seeded-out> <property> [checks,comma,separated] [--tier quick]

Steps (all in a fresh scratch worktree of /repo under /tmp, removed afterwards):
  1. git apply patch.diff ; pinned test-suite must still pass
  2. demo.py must FAIL on the patched tree and PASS on /repo
  3. run the named checks with LABREA_REPO=<worktree>; report which raise a VIOLATION
Writes meta.json next to the patch.
"""
import json
import os
import shutil
import subprocess
import sys
import tempfile
import time

HERE = os.path.dirname(os.path.dirname(os.path.abspath(__file__)))


def sh(cmd, **kw):
    return subprocess.run(cmd, capture_output=True, text=True, **kw)


def main():
    src, prop = os.path.abspath(sys.argv[1]), sys.argv[2]
    checks = sys.argv[3].split(",") if len(sys.argv) > 3 and not sys.argv[3].startswith("--") else [prop]
    tier = sys.argv[sys.argv.index("--tier") + 1] if "--tier" in sys.argv else "quick"
    wt = tempfile.mkdtemp(prefix="labrea-seeded-")
    os.rmdir(wt)
    meta = {"property": prop, "ran": []}
    try:
        r = sh(["git", "-C", "/repo", "worktree", "add", "-q", "--detach", wt, "HEAD"])
        assert r.returncode == 0, r.stderr
        r = sh(["git", "-C", wt, "apply", os.path.join(src, "patch.diff")])
        if r.returncode != 0:
            # the repository moved on since the change was made (a later fix touched the same function): three-way merge
            r = sh(["git", "-C", wt, "apply", "--3way", os.path.join(src, "patch.diff")])
            meta["applied_with_3way"] = r.returncode == 0
        meta["patch_applies"] = r.returncode == 0
        if r.returncode != 0:
            print("patch does not apply:", r.stderr[:500])
            return 1
        r = sh(["/venv/bin/python", "-m", "pytest", "-q", "-p", "no:cacheprovider", "tests"], cwd=wt, timeout=900)
        meta["tests_with_patch"] = r.stdout.strip().splitlines()[-1] if r.stdout.strip() else r.stderr[-200:]
        meta["ran"].append(f"cd {wt} && /venv/bin/python -m pytest -q -p no:cacheprovider tests -> {meta['tests_with_patch']}")
        demo = os.path.join(src, "demo.py")
        a = sh(["/venv/bin/python", demo, wt], cwd="/tmp", timeout=600)
        b = sh(["/venv/bin/python", demo, "/repo"], cwd="/tmp", timeout=600)
        meta["demo_on_patched_rc"] = a.returncode
        meta["demo_on_original_rc"] = b.returncode
        meta["ran"].append(f"demo.py <patched> -> rc {a.returncode}; demo.py /repo -> rc {b.returncode}")
        print(f"tests: {meta['tests_with_patch']} | demo patched rc={a.returncode} original rc={b.returncode}")
        res = {}
        for c in checks:
            t0 = time.time()
            env = dict(os.environ, LABREA_REPO=wt, LVF_OUT=os.path.join(wt, ".lvf-out"))
            r = sh([os.path.join(HERE, "check"), c, "--tier", tier], cwd=HERE, env=env, timeout=7200)
            mon = [l.strip() for l in r.stdout.splitlines() if l.strip().startswith("monitor=")]
            res[c] = {"rc": r.returncode, "violation": "VIOLATION property=" in r.stdout, "first_monitor": (mon[0][:300] if mon else ""), "s": round(time.time() - t0, 1)}
            print(f"  {c}: rc={r.returncode} {'CAUGHT' if res[c]['violation'] else 'missed'} {res[c]['s']}s {res[c]['first_monitor'][:200]}")
            meta["ran"].append(f"LABREA_REPO=<patched> ./check {c} --tier {tier} -> rc {r.returncode}")
        meta["checks"] = res
        meta["caught_by"] = [c for c, v in res.items() if v["violation"]]
    finally:
        sh(["git", "-C", "/repo", "worktree", "remove", "--force", wt])
        shutil.rmtree(wt, ignore_errors=True)
    old = {}
    mp = os.path.join(src, "meta.json")
    if os.path.exists(mp):
        old = json.load(open(mp))
    old.update(meta)
    json.dump(old, open(mp, "w"), indent=1)
    return 0


if __name__ == "__main__":
    sys.exit(main())
