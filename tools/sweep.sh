#!/bin/sh
# usage: tools/sweep.sh <tier> <seed>...   — runs every registered check and prints one status line each
tier=$1; shift
cd "$(dirname "$0")/.."
for s in "$@"; do
  for c in ${CHECKS:-C01 C02 C03 C04 C05 C06 C07 C08 C09 C10 C11 C12 C13 C14 C15 C16 C17 C18 C19 C20}; do
    out=$(VERIF_SEED=$s ./check $c --tier $tier 2>&1); rc=$?
    echo "seed=$s $c rc=$rc $(echo "$out" | grep -E "^$c $tier" | cut -c1-120)"
    [ $rc -ne 0 ] && echo "$out" | grep -E "VIOLATION|monitor=|INCONCLUSIVE" | head -6 | cut -c1-400
  done
done
