"""Seeded random generation of programs (spec trees + dataset tables). DESIGN §2.1."""
import copy
import hashlib
import json

from . import universe as U

FN_NAMES = ["f1", "f2", "isnone", "truthy", "tostr"]
PRED_NAMES = ["isnone", "truthy", "is_str", "is_int", "always", "never", 'eq:1', 'eq:"a"', "eq:0"]
TEXTS = [
    "lit",
    "{A}",
    "{B}",
    "x{A}y",
    "{S.X}",
    "{S.X}-{B}",
    "{T.X}{A}",
    "e{C}",
    "{B}{A}",
    "{L.0}",
    "{:p:}",
    "{:p:}/{A}",
    "{:p:}{:q:}",
    "{D}",
    "{K-1}/{A}",
    "{K 2}",
    "{L.-1}",
]


def spec_hash(obj):
    return hashlib.sha1(json.dumps(obj, sort_keys=True, default=repr).encode()).hexdigest()[:16]


class Gen:
    def __init__(self, rng, max_depth=3, datasets=True, features=None):
        self.rng = rng
        self.max_depth = max_depth
        self.counter = 0
        self.program = {"datasets": {}, "root": None}
        self.allow_datasets = datasets
        # feature switches let checks restrict the language
        self.f = {
            "templates": True,
            "map": True,
            "with": True,
            "cached": True,
            "allopts": True,
            "coalesce": True,
            "bind": True,
            "case": True,
            "switch": True,
            "collections": True,
            "steps": True,
            "domains": True,
            "preset_templates": False,
            "effects": True,
            "nocache": True,
            "iter_bare": False,
            "dataset_classes": True,
        }
        if features:
            self.f.update(features)

    def nid(self):
        self.counter += 1
        return self.counter

    # -- small pieces -------------------------------------------------------
    def key(self):
        r = self.rng.random()
        if r < 0.45:
            return self.rng.choice(U.TOP)
        if r < 0.7:
            return self.rng.choice(U.SECTION_KEYS)
        if r < 0.8:
            return self.rng.choice(["S", "T", "L"])
        if r < 0.9:
            return self.rng.choice(U.LIST_KEYS)
        return self.rng.choice(U.DISPATCH_KEYS)

    def const(self):
        if self.rng.random() < 0.08:
            # a constant that is immutable only on the surface: a tuple holding mutable members (no dictionaries:
            # str() of one has braces, and a template that substitutes that text resolves it again - DESIGN §5)
            return {"k": "const", "v": copy.deepcopy(self.rng.choice([[[1, 2], "x"], [[[0], "n"], 1], [[], [[1]]]])), "as": "tuple"}
        return {"k": "const", "v": copy.deepcopy(self.rng.choice(U.VALUES))}

    def preset(self, templated=False):
        rng = self.rng
        P = {}
        for k in rng.sample(["A", "B", "S.X", "S.Y", "T.X", "D", "C"], rng.choice([1, 1, 2, 3])):
            if templated and rng.random() < 0.3:
                v = rng.choice(["{A}", "{B}", "{C}"])
            else:
                v = rng.choice(U.SCALARS + [[1], [0, "a"]])
            if k == "D":
                v = rng.choice(U.DISPATCH_VALUES)
            P = U.set_path(P, k, v)
        return P

    # -- expressions --------------------------------------------------------
    def opt(self, depth, key=None):
        rng = self.rng
        s = {"k": "opt", "key": key or self.key()}
        if rng.random() < 0.08:
            s["type"] = rng.choice(["int", "str", "object"])  # Option[int]('A') syntax (type is advisory)
        r = rng.random()
        if r < 0.4:
            pass
        elif r < 0.6:
            s["dk"], s["dv"] = "const", copy.deepcopy(rng.choice(U.VALUES))
        elif r < 0.7 and self.f["templates"]:
            s["dk"], s["dv"] = "tmpl", rng.choice([t for t in TEXTS if ":" not in t])
        elif r < 0.78:
            s["dk"], s["dv"], s["n"] = "factory", copy.deepcopy(rng.choice(U.VALUES)), self.nid()
        elif depth > 0:
            s["dk"], s["dv"] = "spec", self.expr(depth - 1)
        # a default outside its own declared domain is a program error (outside C10's premise):
        # domains are attached only to options without default or with a default inside the domain
        if self.f["domains"] and rng.random() < 0.15 and s.get("dk", "none") in ("none", "const", "factory"):
            r = rng.random()
            if r < 0.5:
                s["dom"] = ["container", rng.choice([[0, 1, 2], ["a", "b", ""], [1, "a", None, True], []])]
            elif r < 0.85:
                s["dom"] = ["pred", rng.choice(["truthy", "is_str", "is_int", "always", "isnone"])]
                s.setdefault("n", self.nid())
            else:
                s["dom"] = ["spec", {"k": "opt", "key": "C", "dk": "const", "dv": [0, 1, "a"]}]
            if "dk" in s and not self._in_domain(s["dv"], s["dom"]):
                s.pop("dom")
                if s.get("dk") != "factory":
                    s.pop("n", None)
        if s["key"] in ("S.X", "S.Y", "T.X") and "type" not in s and s.get("dk") != "factory" and rng.random() < 0.3:
            # the same option declared as a member of an option namespace (S / T) instead of by its dotted key
            s["via"] = rng.choice(["ns-auto", "ns-option"] + (["ns-plain"] if s.get("dk") == "const" and not s.get("dom") else []) + (["ns-annotation"] if "dk" not in s and not s.get("dom") else []))
        return s

    @staticmethod
    def _in_domain(value, dom):
        from .probes import pred

        kind, payload = dom
        if isinstance(value, str) and U.template_keys(value):
            return False
        try:
            if kind == "container":
                return value in payload
            if kind == "pred":
                return bool(pred(payload)(value))
        except TypeError:
            return False
        return False

    def hashable(self, depth):
        """Expression intended as a dispatch (usually hashable)."""
        rng = self.rng
        r = rng.random()
        if r < 0.45:
            return {"k": "opt", "key": rng.choice(U.DISPATCH_KEYS)}
        if r < 0.7:
            return {
                "k": "opt",
                "key": rng.choice(U.DISPATCH_KEYS),
                "dk": "const",
                "dv": rng.choice(U.DISPATCH_VALUES),
            }
        if r < 0.8 and depth > 0:
            return {"k": "apply", "src": self.expr(depth - 1), "fn": "tostr", "n": self.nid()}
        if r < 0.9 and depth > 0:
            return {"k": "apply", "src": self.expr(depth - 1), "fn": rng.choice(["isnone", "truthy"]), "n": self.nid()}
        if self.program["datasets"] and self.allow_datasets and rng.random() < 0.7:
            # a dataset as dispatch; its tuple value is made hashable by str()
            return {"k": "apply", "src": {"k": "ds", "id": rng.choice(list(self.program["datasets"]))}, "fn": "tostr", "n": self.nid()}
        return {"k": "opt", "key": rng.choice(U.DISPATCH_KEYS)}

    def iterable(self, depth):
        rng = self.rng
        r = rng.random()
        if r < 0.5:
            n = rng.choice([0, 1, 2, 2, 3])
            return {"k": "const", "v": [copy.deepcopy(rng.choice(U.SCALARS)) for _ in range(n)]}
        if r < 0.75:
            return {"k": "opt", "key": "L", "dk": "const", "dv": [rng.choice(U.SCALARS) for _ in range(rng.choice([1, 2]))]}
        if r < 0.86:
            return {"k": "opt", "key": "L"}
        if r < 0.93:
            # a one-shot iterable (an Iter evaluates to a generator): every combination still sees each of its values
            return {"k": "iter", "items": [{"k": "const", "v": rng.choice(U.SCALARS)} if rng.random() < 0.6 else
                                           {"k": "opt", "key": rng.choice(U.TOP), "dk": "const", "dv": rng.choice(U.SCALARS)} for _ in range(rng.choice([1, 2, 2, 3]))]}
        # (values assigned to options by a Map must stay JSON: option dictionaries are JSON by definition and the
        #  fingerprint serialises them)
        #  (... and no whole sections: a section assigned to an option that a template reads mid-string is the brace
        #  hazard of DESIGN section 5)
        def element():
            if rng.random() < 0.6:
                e = self.opt(0)
                return e if e["key"] not in ("S", "T") else self.opt(0, key=rng.choice(U.TOP + U.SECTION_KEYS))
            return {"k": "const", "v": copy.deepcopy(rng.choice(U.VALUES))}  # (JSON: no tuple constants here)

        return {"k": "list", "items": [element() for _ in range(rng.choice([1, 2]))]}

    def table(self, depth, n=None):
        rng = self.rng
        n = n or rng.choice([1, 2, 2, 3])
        vals = rng.sample(U.DISPATCH_VALUES, n)
        return [[v, self.expr(depth - 1)] for v in vals]

    def expr(self, depth):
        rng = self.rng
        f = self.f
        if depth <= 0:
            r = rng.random()
            if r < 0.55:
                return self.opt(0)
            if r < 0.75:
                return self.const()
            if r < 0.9 and self.program["datasets"] and self.allow_datasets:
                return self.ds_ref()
            if f["templates"]:
                return self.tmpl(0)
            return self.opt(0)
        choices = [("opt", 3), ("const", 1), ("apply", 2)]
        if self.program["datasets"] and self.allow_datasets:
            choices.append(("ds", 4))
        if f["templates"]:
            choices.append(("tmpl", 1.5))
        if f["switch"]:
            choices.append(("switch", 2))
        if f["case"]:
            choices.append(("case", 1.2))
        if f["bind"]:
            choices.append(("bind", 1.2))
        if f["coalesce"]:
            choices.append(("coalesce", 1.5))
        if f["collections"]:
            choices.append(("coll", 1.5))
        if f["map"]:
            choices.append(("map", 1.0))
        if f["with"]:
            choices.append(("with", 1.5))
        if f["cached"]:
            choices.append(("cached", 1.2))
        if f["allopts"]:
            choices.append(("allopts", 0.25))
        if f["steps"]:
            choices.append(("step", 0.8))
        if f["dataset_classes"]:
            choices.append(("dc", 0.7))
            choices.append(("user", 0.5))
        total = sum(w for _, w in choices)
        r = rng.random() * total
        for name, w in choices:
            r -= w
            if r <= 0:
                break
        d = depth - 1
        if name == "opt":
            return self.opt(depth)
        if name == "const":
            return self.const()
        if name == "ds":
            return self.ds_ref()
        if name == "tmpl":
            return self.tmpl(depth)
        if name == "apply":
            return {
                "k": "apply",
                "src": self.expr(d),
                "fn": rng.choice(FN_NAMES),
                "n": self.nid(),
                "form": rng.choice(["apply", "rshift"]),
            }
        if name == "user":
            # a user-written Evaluatable subclass that wraps another expression and passes every operation on
            return {"k": "user", "spec": self.expr(d), "n": self.nid(), "depth": rng.choice([1, 1, 2])}
        if name == "dc":
            # a dataset class (its instance, unpacked member by member): members may be privately named, and the first
            # `base` of them inherited from a base class that may be a dataset class itself
            n = rng.choice([1, 2, 2, 3])
            members = [[("_m%d" if rng.random() < 0.3 else "m%d") % i, self.expr(max(d - 1, 0))] for i in range(n)]
            s = {"k": "dc", "members": members, "n": self.nid()}
            if n > 1 and rng.random() < 0.4:
                s["base"] = rng.randrange(1, n)
                s["base_decorated"] = rng.random() < 0.5
            return s
        if name == "step":
            params = [[f"p{i}", self.expr(max(d - 1, 0))] for i in range(rng.choice([0, 1, 2]))]
            return {"k": "apply", "src": self.expr(d), "fn": {"name": f"s{self.nid()}", "params": params, "n": self.nid()}}
        if name == "switch":
            s = {"k": "switch", "disp": self.hashable(d), "table": self.table(depth)}
            if rng.random() < 0.3:
                s["plain_values"] = True
            if isinstance(s["disp"], dict) and s["disp"]["k"] == "opt" and "dk" not in s["disp"] and rng.random() < 0.5:
                s["disp"] = s["disp"]["key"]
            if rng.random() < 0.6:
                s["default"] = self.expr(d)
            return s
        if name == "case":
            n = self.nid()
            cases = [[rng.choice(PRED_NAMES), self.expr(d)] for _ in range(rng.choice([1, 2, 3]))]
            for c_ in cases:
                if rng.random() < 0.25:
                    # a condition that is an expression over the options (its keys are part of what the case reads)
                    c_[0] = rng.choice(["eqopt:", "eqopt:", "eqopt!:"]) + rng.choice(["B", "C", "S.X", "T.X"])
                    if self.allow_datasets and self.program["datasets"] and rng.random() < 0.4:
                        c_[0] = "eqds:" + rng.choice(list(self.program["datasets"]))  # a condition computed by a dataset
            s = {"k": "case", "disp": self.expr(d), "cases": cases, "n": n}
            if rng.random() < 0.6:
                s["default"] = self.expr(d)
            return s
        if name == "bind":
            vals = rng.sample(U.SCALARS, rng.choice([1, 2]))
            return {
                "k": "bind",
                "src": self.expr(d),
                "table": [[v, self.expr(d)] for v in vals],
                "else": self.expr(d),
                "n": self.nid(),
            }
        if name == "coalesce":
            return {"k": "coalesce", "members": [self.expr(d) for _ in range(rng.choice([1, 2, 2, 3]))]}
        if name == "coll":
            kind = rng.choice(["list", "tuple", "dict", "set"])
            n = rng.choice([0, 1, 2, 3])
            if kind == "dict":
                keys = rng.sample(["k1", "k2", "k3", 0, 1, None], n)
                return {"k": "dict", "items": [[k, self.expr(d)] for k in keys]}
            if kind == "set":
                return {"k": "set", "items": [self.hashable(d) for _ in range(n)]}
            return {"k": kind, "items": [self.expr(d) for _ in range(n)]}
        if name == "map":
            keys = rng.sample(["A", "B", "S.X", "S.Y", "T.X", "D"], rng.choice([1, 1, 2, 2, 3]))
            s = {"k": "map", "body": self.expr(d), "iters": [[k, self.iterable(d)] for k in keys]}
            if rng.random() < 0.3:
                s["values"] = True
            # a Map is a one-shot iterable: realise it where it is built
            return {"k": "apply", "src": s, "fn": "f1", "n": self.nid()}
        if name == "with":
            return {
                "k": "with",
                "spec": self.expr(d),
                "P": self.preset(self.f["preset_templates"]),
                "force": rng.random() < 0.6,
            }
        if name == "cached":
            s = {"k": "cached", "spec": self.expr(d)}
            if rng.random() < 0.3:
                s["form"] = "decorator"  # cached(cache)(expression)
            return s
        if name == "allopts":
            return {"k": "allopts"}
        raise AssertionError(name)

    def tmpl(self, depth):
        rng = self.rng
        text = rng.choice(TEXTS)
        params = []
        for p in ("p", "q"):
            if "{:" + p + ":}" in text:
                params.append([p, self.param(max(depth - 1, 0))])
        return {"k": "tmpl", "text": text, "params": params}

    def param(self, depth):
        """Template parameter: its string form must be brace-free (substituted text is re-resolved)."""
        rng = self.rng
        r = rng.random()
        if r < 0.3:
            return {"k": "const", "v": rng.choice(U.SCALARS)}
        if r < 0.6:
            return {"k": "opt", "key": rng.choice(U.DISPATCH_KEYS), "dk": "const", "dv": rng.choice(U.DISPATCH_VALUES)}
        return {"k": "apply", "src": self.expr(depth), "fn": "tostr", "n": self.nid()}

    def ds_ref(self):
        rng = self.rng
        did = rng.choice(list(self.program["datasets"]))
        s = {"k": "ds", "id": did}
        if self.f["with"] and rng.random() < 0.12:
            if rng.random() < 0.6:
                s["P"] = self.preset()
            else:
                s["D"] = self.preset()
        return s

    # -- datasets -----------------------------------------------------------
    def dataset(self, depth):
        rng = self.rng
        did = str(len(self.program["datasets"]) + 1)
        d = {}
        if rng.random() < 0.12:
            d["expr"] = self.expr(depth)
            d["form"] = "explicit"
        else:
            d["args"] = [[f"a{i}", self.expr(depth)] for i in range(rng.choice([0, 1, 1, 2, 2, 3]))]
            d["form"] = rng.choice(["decorator", "explicit"])
        if rng.random() < 0.45:
            disp = self.hashable(max(depth - 1, 0))
            if disp["k"] == "opt" and "dk" not in disp and rng.random() < 0.6:
                disp = disp["key"]
            d["dispatch"] = disp
            ovs = []
            for alias in rng.sample(U.DISPATCH_VALUES, rng.choice([0, 1, 2, 2])):
                r = rng.random()
                if r < 0.15 and alias != "x":
                    alias = [alias, "x"]
                r = rng.random()
                if r < 0.6:
                    impl = {"args": [[f"b{i}", self.expr(depth)] for i in range(rng.choice([0, 1, 2]))]}
                elif r < 0.85 or not self.program["datasets"]:
                    impl = {"expr": self.expr(depth)}
                else:
                    impl = {"ds": rng.choice(list(self.program["datasets"]))}
                ovs.append([alias, impl])
            d["overloads"] = ovs
            if ovs and rng.random() < 0.15 and "expr" not in d:
                d["abstract"] = True
        if self.f["with"] and rng.random() < 0.2:
            d["options"] = self.preset(self.f["preset_templates"])
        if self.f["with"] and rng.random() < 0.2:
            d["default_options"] = self.preset(self.f["preset_templates"])
        if rng.random() < 0.25:
            d["callback"] = rng.choice(["c1", "c2"])
        if self.f["effects"] and rng.random() < 0.3:
            d["effects"] = ["e"] * rng.choice([1, 2])
        if self.f["nocache"] and rng.random() < 0.1:
            d["cache"] = "nocache"
        elif rng.random() < 0.2:
            d["cache"] = "factory"  # created through one shared, configured decorator (cache=<callable>)
        via = {}
        if rng.random() < 0.2 and d.get("args"):
            via["defaults"] = rng.choice(["where", "kwarg", "var_kwargs", "lifted"])
        if d.get("cache") == "nocache" and rng.random() < 0.5:
            via["nocache_property"] = True
        elif d.get("cache") in (None, "memory") and rng.random() < 0.15:
            via["set_cache"] = rng.choice(["instance", "callable"])
        if d.get("effects") and rng.random() < 0.3:
            via["add_effects"] = rng.choice(["all", "one-by-one"])
        if d.get("effects") and rng.random() < 0.3:
            via["effect_objects"] = rng.choice(["callback-effect", "effect-subclass"])
        if via:
            d["via"] = via
        self.program["datasets"][did] = d
        return did

    def make(self, n_datasets=None, root_depth=None):
        rng = self.rng
        n = n_datasets if n_datasets is not None else rng.choice([0, 1, 2, 3, 4])
        if self.allow_datasets:
            for _ in range(n):
                self.dataset(rng.choice([0, 1, 1, max(self.max_depth - 1, 1)]))
        self.program["root"] = self.expr(root_depth if root_depth is not None else self.max_depth)
        return self.program


def random_program(rng, max_depth=3, n_datasets=None, features=None, root_depth=None):
    return Gen(rng, max_depth, features=features).make(n_datasets, root_depth)


def mentioned_keys(program):
    """Option keys appearing syntactically anywhere in the program."""
    from .ref import Ref

    r = Ref(program)
    keys = set(r.may_read(program["root"]))
    for did in program.get("datasets", {}):
        keys |= r.may_read({"k": "ds", "id": did})
    keys.discard("*")
    return keys
