"""Hostile histories on ONE long-lived object (shared by several checks).

What a caller may legally do between two calls, and what per-object memos, aliasing and
state left behind by failed calls get wrong:

* pass a dictionary that is `==` to the previous one but differently typed (1 / True / 1.0, 0 / False);
* pass the SAME dictionary object again after editing it in place (top level, inside a section, inside a list);
* mutate what the previous call returned (the caller owns returned values; user bodies own their arguments);
* make a call fail (a needed key deleted in place), complete the same dictionary object in place and retry.

`steps()` yields (label, dictionary object); the driver of each check evaluates the long-lived subject with
exactly that object and compares with a fresh subject / the reference on a private deep copy.
"""
import copy

from . import universe as U

SENTINEL = "<scribbled>"

_TWINS = {1: [True, 1.0], 0: [False, 0.0], 2: [2.0], -1: [-1.0]}


def _twin(v, r):
    if isinstance(v, bool):
        return int(v)
    if isinstance(v, int) and v in _TWINS:
        return r.choice(_TWINS[v])
    if isinstance(v, float) and v == int(v):
        return int(v)
    return None


def typed_twin(o, r):
    """A deep copy of `o` in which some numeric / boolean leaves are replaced by equal values of another type
    (so that `twin == o` holds for Python while the JSON differs); None when `o` has no such leaf."""
    changed = [0]

    def walk(v):
        if isinstance(v, dict):
            return {k: walk(x) for k, x in v.items()}
        if isinstance(v, list):
            return [walk(x) for x in v]
        t = _twin(v, r)
        if t is not None and r.random() < 0.7:
            changed[0] += 1
            return t
        return copy.deepcopy(v)

    out = walk(o)
    if not changed[0] or out != o:
        return None
    return out


def scribble(v, depth=3):
    """Mutate a value the caller owns, in place (lists grow, dictionaries get a new entry), recursively."""
    if depth <= 0:
        return
    if isinstance(v, list):
        for x in v:
            scribble(x, depth - 1)
        v.append(SENTINEL)
    elif isinstance(v, dict):
        for x in list(v.values()):
            scribble(x, depth - 1)
        try:
            v[SENTINEL] = 1
        except TypeError:  # mappingproxy and friends
            pass
    elif isinstance(v, tuple):
        for x in v:
            scribble(x, depth - 1)
    elif isinstance(v, set):
        v.add(SENTINEL)


def edit_in_place(o, r, keys):
    """One in-place edit of the dictionary object `o`; returns a label (or None if nothing could be edited)."""
    paths = U.leaf_paths(o)
    kind = r.choice(["set-leaf", "set-leaf", "grow-list", "delete", "add", "replace-section-member"])
    if kind == "grow-list":
        lists = [p for p in paths if isinstance(U.lookup(p, o), list)]
        if lists:
            p = r.choice(lists)
            _container(o, p)[_last(p, o)].append(r.choice(U.SCALARS))
            return f"grow-list {p}"
        kind = "set-leaf"
    if kind == "add":
        absent = [k for k in (keys or []) if k not in ("S", "T", "L") and not any(part.lstrip("-").isdigit() for part in k.split("."))
                  and U.lookup(k, o) is U.ABSENT and _settable(o, k)]
        if absent:
            k = r.choice(absent)
            _set(o, k, r.choice(U.SCALARS))
            return f"add {k}"
        kind = "set-leaf"
    paths = [p for p in paths if p not in ("S", "T", "L")]  # (a scalar where a section is expected is the recorded C04 finding)
    if not paths:
        return None
    p = r.choice(paths)
    c = _container(o, p)
    if isinstance(c, list):
        if kind == "delete":
            return None  # (deleting a list element shifts its siblings: not a single-key edit)
        i = int(p.split(".")[-1])
        c[i] = r.choice([x for x in U.SCALARS if x is not c[i]])
        return f"set-leaf {p}"
    if kind == "delete":
        del c[p.split(".")[-1]]
        return f"delete {p}"
    c[p.split(".")[-1]] = r.choice(U.SCALARS + [[1, 2], []])
    return f"{kind} {p}"


def _settable(o, k):
    cur = o
    for part in k.split(".")[:-1]:
        if part not in cur:
            return True
        cur = cur[part]
        if not isinstance(cur, dict):
            return False
    return True


def _container(o, p):
    cur = o
    for part in p.split(".")[:-1]:
        cur = cur[int(part)] if isinstance(cur, list) else cur[part]
    return cur


def _last(p, o):
    c = _container(o, p)
    last = p.split(".")[-1]
    return int(last) if isinstance(c, list) else last


def _set(o, p, v):
    cur = o
    parts = p.split(".")
    for part in parts[:-1]:
        if isinstance(cur, list):
            cur = cur[int(part)]
        else:
            cur = cur.setdefault(part, {})
    if isinstance(cur, list):
        cur[int(parts[-1])] = v
    else:
        cur[parts[-1]] = v


def steps(r, base, keys, n=7):
    """Yield (label, dictionary object) - the SAME object `A` is handed out again after in-place edits."""
    A = copy.deepcopy(base)
    yield "first", A
    for _ in range(n):
        k = r.random()
        if k < 0.25:
            t = typed_twin(A, r)
            if t is not None:
                yield "equal-but-differently-typed", t
                yield "back-to-the-original-object", A
                continue
            k = 0.3
        if k < 0.6:
            label = edit_in_place(A, r, keys)
            if label:
                yield "same-object " + label, A
        elif k < 0.8:
            # fail-then-complete: delete a key in place, call, put it back in place, call again
            paths = [p for p in U.leaf_paths(A) if isinstance(_container(A, p), dict) and U.lookup(p, A) is not U.ABSENT]
            if paths:
                p = r.choice(paths)
                saved = copy.deepcopy(U.lookup(p, A))
                c = _container(A, p)
                del c[p.split(".")[-1]]
                yield f"same-object delete {p}", A
                _set(A, p, saved)
                yield f"same-object restore {p}", A
        else:
            yield "equal-fresh-copy", copy.deepcopy(A)
