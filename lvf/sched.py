"""Controlled thread scheduler (DESIGN §2.5).

Worker threads run one at a time (baton).  Yield points: explicit operation
boundaries, and - through sys.settrace in each worker - every `line` or `opcode`
event in frames whose code lives in the labrea package.  labrea's locks are made
cooperative without editing the repository: module-global lock instances are
replaced and the name `threading` inside labrea.runtime / labrea.overload is
swapped for a proxy whose Lock is SchedLock.  threading.Lock itself is never
patched globally.
"""
import os
import sys
import threading
import time

from . import boot  # noqa: F401
import labrea
import labrea.overload
import labrea.runtime

LABREA_DIR = os.path.dirname(os.path.abspath(labrea.__file__)) + os.sep
# frames that touch state shared between threads: the thread->runtime table, overload tables, cache dicts
SHARED_STATE_FILES = tuple(LABREA_DIR + f for f in ("runtime.py", "overload.py", "cache.py"))
LINE_FILES = SHARED_STATE_FILES + (LABREA_DIR + "dataset.py", LABREA_DIR + "conditional.py")

_current = None  # the active Scheduler (one at a time per process)


class Deadlock(Exception):
    pass


class SchedLock:
    """Cooperative replacement for threading.Lock inside labrea."""

    def __init__(self):
        self._real = threading.Lock()
        self.owner = None

    def acquire(self, blocking=True, timeout=-1):
        s = _current
        i = s.me() if s is not None else None
        if i is None:
            return self._real.acquire(blocking, timeout)
        if s.gran == "op":  # with line/opcode tracing the statement that takes the lock is a yield point already
            s.yield_point(i, "lock")
        while self.owner is not None:
            s.blocked[i] = self
            s.switch(i, forced=True)
        s.blocked[i] = None
        self.owner = i
        s.lock_events += 1
        return True

    def release(self):
        s = _current
        i = s.me() if s is not None else None
        if i is None:
            return self._real.release()
        self.owner = None

    def locked(self):
        return self.owner is not None or self._real.locked()

    __enter__ = acquire

    def __exit__(self, *a):
        self.release()


class _ThreadingProxy:
    """Stands in for the `threading` module inside labrea modules."""

    def __init__(self):
        self.Lock = SchedLock

    def __getattr__(self, name):
        return getattr(threading, name)


_installed = False


def install():
    """Make every lock labrea uses (now or later) cooperative.  Idempotent."""
    global _installed
    if _installed:
        return
    proxy = _ThreadingProxy()
    for mod in (labrea.runtime, labrea.overload):
        for name, val in list(vars(mod).items()):
            if isinstance(val, type(threading.Lock())):
                setattr(mod, name, SchedLock())
        if getattr(mod, "threading", None) is threading:
            mod.threading = proxy
    locks = getattr(labrea.overload, "_LOCKS", None)
    if isinstance(locks, dict):
        for k in list(locks):
            locks[k] = SchedLock()
    _installed = True


def cooperative(obj):
    """Replace real lock attributes of an already constructed labrea object."""
    for name, val in list(getattr(obj, "__dict__", {}).items()):
        if isinstance(val, type(threading.Lock())):
            setattr(obj, name, SchedLock())


# ---------------------------------------------------------------------------
# choosers


class RandomChooser:
    def __init__(self, rng, p_switch=0.3):
        self.rng = rng
        self.p = p_switch
        self.trace = []

    def choose(self, cur, options, can_continue):
        if can_continue and self.rng.random() > self.p:
            c = 0
        else:
            c = self.rng.randrange(len(options))
        self.trace.append(c)
        return c


class ReplayChooser:
    def __init__(self, prefix):
        self.prefix = list(prefix)
        self.trace = []
        self.meta = []  # (n_options, can_continue)

    def choose(self, cur, options, can_continue):
        d = len(self.trace)
        c = self.prefix[d] if d < len(self.prefix) else 0
        if c >= len(options):
            c = 0
        self.trace.append(c)
        self.meta.append((len(options), can_continue))
        return c


def dfs_schedules(run, bound, limit):
    """Enumerate schedules depth-first with at most `bound` preemptions.
    run(chooser) executes one schedule.  Yields the chooser after each run."""
    prefix = []
    n = 0
    while True:
        ch = ReplayChooser(prefix)
        run(ch)
        n += 1
        yield ch
        if n >= limit:
            return
        # next prefix: last decision with an untried alternative within the preemption bound
        trace, meta = ch.trace, ch.meta
        pre = 0
        counts = []
        for c, (k, cc) in zip(trace, meta):
            counts.append(pre)
            if cc and c != 0:
                pre += 1
        nxt = None
        for d in range(len(trace) - 1, -1, -1):
            k, cc = meta[d]
            c = trace[d] + 1
            if c < k:
                cost = counts[d] + (1 if cc else 0)
                if cost <= bound:
                    nxt = trace[:d] + [c]
                    break
        if nxt is None:
            return
        prefix = nxt


def spread_schedules(run, bound, limit, rng=None):
    """Systematic schedules with at most `bound` preemptions, spread evenly over the whole execution.

    The non-preemptive schedule is run first; then every (decision point, alternative) single deviation - all
    of them when they fit the limit, otherwise an even stride over the positions; the remaining budget goes to
    seeded pairs (and triples for bound 3) of deviations.  Unlike depth-first enumeration under a limit this
    reaches early as well as late preemption points.  Yields each chooser after its run."""
    import random as _random

    rng = rng or _random.Random(0)
    base = ReplayChooser([])
    run(base)
    yield base
    n = 1
    points = [(d, alt) for d, (k, cc) in enumerate(base.meta) for alt in range(1, k)]
    if not points or limit <= 1:
        return
    budget1 = limit - 1 if bound < 2 else max(1, (limit - 1) * 2 // 3)
    stride = max(1, -(-len(points) // budget1))
    offset = rng.randrange(stride)
    singles = points[offset::stride]
    for d, alt in singles:
        ch = ReplayChooser(base.trace[:d] + [alt])
        run(ch)
        n += 1
        yield ch
        if n >= limit:
            return
    if bound < 2:
        return
    while n < limit:
        k = 2 if bound == 2 or rng.random() < 0.6 else 3
        first = rng.choice(points)
        ch1 = ReplayChooser(base.trace[: first[0]] + [first[1]])
        # deviations after the first one are drawn against the trace that the first deviation produces
        prefix = base.trace[: first[0]] + [first[1]]
        ok = True
        for _ in range(k - 1):
            probe = ReplayChooser(prefix)
            run(probe)
            n += 1
            yield probe
            later = [(d, alt) for d, (kk, cc) in enumerate(probe.meta) for alt in range(1, kk) if d >= len(prefix)]
            if not later or n >= limit:
                ok = False
                break
            d, alt = rng.choice(later)
            prefix = probe.trace[:d] + [alt]
        if ok and n < limit:
            ch = ReplayChooser(prefix)
            run(ch)
            n += 1
            yield ch


# ---------------------------------------------------------------------------


class Scheduler:
    def __init__(self, chooser, granularity="op", max_yields=200000, trace_files=None):
        self.chooser = chooser
        self.gran = granularity
        self.trace_files = trace_files  # restrict line/opcode yield points to these labrea files (focus mode)
        self.cv = threading.Condition()
        self.current = None
        self.threads = []
        self.idx = {}
        self.done = set()
        self.blocked = {}
        self.yields = 0
        self.switches = 0
        self.lock_events = 0
        self.max_yields = max_yields
        self.errors = {}
        self.clock = 0
        self.aborted = None
        self.ops_order = []  # operation-level interleaving (thread ids at op boundaries)

    def me(self):
        return self.idx.get(threading.get_ident())

    # -- yield points --------------------------------------------------------
    def op(self, i, label=None):
        """Operation boundary in the harness."""
        self.clock += 1
        self.ops_order.append(i)
        self.yield_point(i, "op")

    def yield_point(self, i, kind):
        if self.aborted:
            raise self.aborted
        self.yields += 1
        if self.yields > self.max_yields:
            self.aborted = Deadlock("yield budget exhausted")
            raise self.aborted
        self.switch(i)

    def switch(self, i, forced=False):
        alive = [j for j in range(len(self.threads)) if j not in self.done]
        enabled = [j for j in alive if self.blocked.get(j) is None or self.blocked[j].owner is None]
        can_continue = i in enabled and not forced
        if not enabled:
            self.aborted = Deadlock(f"no enabled thread; blocked={ {j: id(b) for j, b in self.blocked.items() if b} }")
            with self.cv:
                self.cv.notify_all()
            raise self.aborted
        options = ([i] if can_continue else []) + [j for j in enabled if j != i]
        if not options:
            options = [i]
        c = self.chooser.choose(i, options, can_continue) if len(options) > 1 else 0
        j = options[c]
        if j != i:
            self.switches += 1
            self._hand(i, j)

    def _hand(self, i, j):
        with self.cv:
            self.current = j
            self.cv.notify_all()
            while self.current != i and not self.aborted:
                self.cv.wait(5)
        if self.aborted:
            raise self.aborted

    # -- tracing ---------------------------------------------------------------
    def _tracer(self, i):
        opcode = self.gran == "opcode"
        files = self.trace_files or (SHARED_STATE_FILES if opcode else LINE_FILES)

        def local(frame, event, arg):
            if event == "line" and not opcode:
                self.yield_point(i, "line")
            elif event == "opcode":
                self.yield_point(i, "opcode")
            return local

        def glob(frame, event, arg):
            if event == "call" and frame.f_code.co_filename in files:
                if opcode:
                    frame.f_trace_opcodes = True
                return local
            return None

        return glob

    # -- running -----------------------------------------------------------------
    def run(self, fns, timeout=60):
        """fns: list of callables f(sched, i).  Returns dict of errors per thread."""
        global _current
        install()
        _current = self
        n = len(fns)

        def worker(i):
            self.idx[threading.get_ident()] = i
            with self.cv:
                while self.current != i and not self.aborted:
                    self.cv.wait(5)
            try:
                if self.aborted:
                    return
                if self.gran != "op":
                    sys.settrace(self._tracer(i))
                try:
                    fns[i](self, i)
                finally:
                    sys.settrace(None)
            except Deadlock:
                pass
            except BaseException as e:  # noqa: BLE001
                self.errors[i] = e
            finally:
                self.done.add(i)
                self.blocked[i] = None
                alive = [j for j in range(n) if j not in self.done]
                if alive and not self.aborted:
                    enabled = [j for j in alive if self.blocked.get(j) is None or self.blocked[j].owner is None]
                    if not enabled:
                        self.aborted = Deadlock("remaining threads all blocked")
                        with self.cv:
                            self.cv.notify_all()
                    else:
                        c = self.chooser.choose(i, enabled, False) if len(enabled) > 1 else 0
                        with self.cv:
                            self.current = enabled[c]
                            self.cv.notify_all()

        self.threads = [threading.Thread(target=worker, args=(i,), name=f"w{i}", daemon=True) for i in range(n)]
        for t in self.threads:
            t.start()
        first = self.chooser.choose(-1, list(range(n)), False) if n > 1 else 0
        with self.cv:
            self.current = first
            self.cv.notify_all()
        deadline = time.time() + timeout
        for t in self.threads:
            t.join(max(0.1, deadline - time.time()))
        hung = [t.name for t in self.threads if t.is_alive()]
        _current = None
        if hung:
            self.aborted = self.aborted or Deadlock("watchdog")
            with self.cv:
                self.cv.notify_all()
            return {"hung": hung}
        return {"errors": dict(self.errors), "deadlock": str(self.aborted) if self.aborted else None}
