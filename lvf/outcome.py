"""Canonical form of values and failures (DESIGN §2.6)."""
import types as _types
from collections.abc import Iterator, Mapping


class RefIter(list):
    """Marker used by the reference interpreter for lazily produced iterables."""


def canon(v, ordered=False):
    """Structural, order-stable form; distinguishes 1 / True / 1.0 and list / tuple."""
    if v is None:
        return ("n",)
    if isinstance(v, bool):
        return ("b", v)
    if isinstance(v, int):
        return ("i", v)
    if isinstance(v, float):
        return ("f", repr(v))
    if isinstance(v, str):
        return ("s", v)
    if isinstance(v, bytes):
        return ("y", v.hex())
    if isinstance(v, RefIter):
        return ("G", tuple(canon(x, ordered) for x in v))
    if isinstance(v, list):
        return ("L", tuple(canon(x, ordered) for x in v))
    if isinstance(v, tuple):
        return ("T", tuple(canon(x, ordered) for x in v))
    if isinstance(v, (set, frozenset)):
        return ("S", tuple(sorted((canon(x, ordered) for x in v), key=repr)))
    if isinstance(v, Mapping):
        items = [(canon(k, ordered), canon(x, ordered)) for k, x in v.items()]
        if not ordered:
            items.sort(key=repr)
        return ("D", tuple(items))
    if isinstance(v, (Iterator, _types.GeneratorType, map, filter)):
        return ("G", tuple(canon(x, ordered) for x in v))
    if isinstance(v, type):
        return ("type", v.__name__)
    if callable(v):
        return ("callable", getattr(v, "__name__", type(v).__name__))
    return ("obj", type(v).__name__, repr(v))


def realise(v):
    """Turn one-shot iterators nested in a value into tuples (used by probe bodies)."""
    if isinstance(v, (Iterator, _types.GeneratorType, map, filter)):
        return ("iter",) + tuple(realise(x) for x in v)
    if isinstance(v, RefIter):
        return ("iter",) + tuple(realise(x) for x in v)
    if isinstance(v, list):
        return [realise(x) for x in v]
    if isinstance(v, tuple):
        return tuple(realise(x) for x in v)
    if isinstance(v, dict):
        return {k: realise(x) for k, x in v.items()}
    if isinstance(v, (set, frozenset)):
        return type(v)(v)
    return v


def root_cause(exc):
    seen = 0
    while exc.__cause__ is not None and seen < 200:
        exc = exc.__cause__
        seen += 1
    return exc


def chain(exc):
    out = [exc]
    while exc.__cause__ is not None and len(out) < 200:
        exc = exc.__cause__
        out.append(exc)
    return out


def err_outcome(exc):
    """('err', kind, key) where kind is the class of the root cause."""
    root = root_cause(exc)
    kind = type(root).__name__
    key = None
    # the innermost missing-key error names the option
    for e in reversed(chain(exc)):
        if type(e).__name__ == "KeyNotFoundError":
            key = getattr(e, "key", None)
            kind = "KeyNotFoundError"
            break
    if kind == "KeyError" and key is None and root.args:
        key = root.args[0]
    return ("err", kind, key)


def observe(fn, *args, ordered=False, **kwargs):
    """Run fn and return its outcome: ('ok', canon) or ('err', kind, key).

    Lazy results are consumed here, so failures inside generators are attributed
    to the call that produced them.
    """
    try:
        v = fn(*args, **kwargs)
        return ("ok", canon(v, ordered))
    except RecursionError:
        raise
    except Exception as e:  # noqa: BLE001
        return err_outcome(e)


def same(a, b, strict_key=True):
    if a[0] != b[0]:
        return False
    if a[0] == "ok":
        return a[1] == b[1]
    if a[1] != b[1]:
        return False
    if strict_key and a[1] == "KeyNotFoundError":
        return a[2] == b[2]
    return True


def short(o, n=160):
    s = repr(o)
    return s if len(s) <= n else s[: n - 3] + "..."
