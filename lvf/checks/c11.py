"""C11 — explain() covers keys() and names every missing option.

Monitors: boundary recorder on explain() / keys() / validate() for the same
(graph, options), probe log during explain(); workload: every sub-dictionary
of sufficient dictionaries, and the iterative "fill what explain lists" loop.
"""
import copy

from .. import boot  # noqa: F401
import labrea.cache

from .. import directed
from .. import universe as U
from ..build import build
from ..cases import case_rng, program_for
from ..gen import mentioned_keys, spec_hash
from ..outcome import chain, observe, short
from .c06 import selector_datasets

PROPERTY = "C11"
LEVEL = "exploration"
RULE = (
    "case = (program, o) with o ranging over the empty dictionary, every sub-dictionary (<= 2^8) of dictionaries on "
    "which the program validates, and random dictionaries: explain(o) >= keys(o) when both succeed; with missing = "
    "{k in explain(o) absent from o}: missing empty => validate(o) does not fail for a missing option, missing "
    "non-empty => validate(o) fails, a missing-key failure of validate names a key of explain(o); explain raises only "
    "InsufficientInformationError; bodies run by explain belong to selector datasets; starting from {} and adding "
    "exactly the absent keys explain lists (values taken from a sufficient dictionary) reaches a validating "
    "dictionary within |universe| rounds.  distinct = sha1(program, o); non-trivial = explain listed at least one "
    "absent key, or the fill loop needed >= 2 rounds."
)
ASSUMPTIONS = ["dictionaries without dangling template references; random programs carry no domains (premise of validate/evaluate agreement, C10)"]
FLOORS = {"datasetclass_explain_cases": (1200, 24000), "effect_option_cases": (576, 576), "effect_option_cases_effects_off": (192, 192), "explain_ok": (8000, 150000), "explain_with_missing": (3000, 60000), "no_missing_and_validates": (2500, 50000),
          "explain_insufficient_information": (300, 6000), "fill_loops_completed": (400, 8000), "fill_loops_multi_round": (3, 30),
          "subdictionary_cases": (4000, 80000)}
SHARDS_QUICK = 4
FEATURES = {"domains": False, "allopts": False}


def one(ctx, program, o, G, sel, tag):
    mark = G.log.mark()
    with labrea.cache.disabled():
        try:
            ex = ("ok", set(G.root.explain(copy.deepcopy(o))))
        except Exception as e:  # noqa: BLE001
            ex = ("err", type(e).__name__, e)
    ran = [e[2] for e in G.log.since(mark, ("body",))]
    ctx.evaluations += 1
    W = {"program": program, "options": o, "source": tag}
    if ex[0] == "err":
        if ex[1] != "InsufficientInformationError":
            ctx.violation("explain-raises-other-error", f"explain(o) raised {ex[1]}: {ex[2]}", W)
            return None
        ctx.count("explain_insufficient_information")
        return None
    ctx.count("explain_ok")
    extra = [p for p in ran if p[2:].split(":")[0] not in sel]
    if extra:
        ctx.violation("body-ran-during-explain", f"explain() ran bodies {extra[:5]} which select no branch", W)
        return None
    explained = ex[1]
    with labrea.cache.disabled():
        ks = observe(G.root.keys, copy.deepcopy(o))
        try:
            G.root.validate(copy.deepcopy(o))
            val = ("ok",)
        except Exception as e:  # noqa: BLE001
            knf = [x for x in chain(e) if type(x).__name__ == "KeyNotFoundError"]
            val = ("err", type(e).__name__, knf[-1].key if knf else None, bool(knf))
    ctx.evaluations += 2
    W["explain"] = sorted(explained)
    if ks[0] == "ok":
        keys = set(k[1] for k in ks[1][1])
        if not keys <= explained:
            ctx.violation("explain-misses-keys", f"keys(o)={sorted(keys)} but explain(o)={sorted(explained)}", W)
            return None
    missing = {k for k in explained if not U.present(k, o)}
    if missing:
        ctx.count("explain_with_missing")
        ctx.nontrivial(spec_hash([program, o]))
        if val[0] == "ok":
            ctx.violation("explain-lists-absent-key-but-validate-passes", f"explain(o) lists absent {sorted(missing)} but validate(o) passes", W)
            return None
    else:
        if val[0] == "err" and val[3]:
            ctx.violation("validate-misses-key-explain-did-not-list", f"explain(o)={sorted(explained)} has no absent key but validate(o) fails for missing {val[2]!r}", W)
            return None
        if val[0] == "ok":
            ctx.count("no_missing_and_validates")
    if val[0] == "err" and val[3] and val[2] not in explained:
        ctx.violation("validate-names-unlisted-key", f"validate(o) fails for missing {val[2]!r} which explain(o)={sorted(explained)} does not list", W)
        return None
    return explained, missing, val


def fill_loop(ctx, program, full, G, sel, tag):
    """Iterative use: start from {} and supply what explain lists until validate passes."""
    o = {}
    rounds = 0
    for _ in range(14):
        res = one(ctx, program, o, G, sel, tag + ":fill")
        if res is None:
            return
        explained, missing, val = res
        if val[0] == "ok":
            ctx.count("fill_loops_completed")
            if rounds >= 2:
                ctx.count("fill_loops_multi_round")
                ctx.nontrivial(spec_hash(["fill", program, full]))
            return
        if not missing:
            return  # fails for another reason (unmatched switch, ...): nothing more to supply
        progressed = False
        for k in sorted(missing):
            v = U.lookup(k, full)
            if v is U.ABSENT:
                continue
            parent_ok = True
            if "." in k:
                head = k.split(".")[0]
                if head == "L":
                    v, k = U.lookup("L", full), "L"
            if parent_ok:
                o = U.set_path(o, k, v)
                progressed = True
        rounds += 1
        if not progressed:
            return
    ctx.violation("fill-loop-does-not-terminate", "supplying what explain() lists did not reach a validating dictionary in 14 rounds",
                  {"program": program, "options": full, "source": tag})


def effect_case(ctx):
    """Effects that need options of their own (an Evaluatable effect, a pipeline step with an option parameter; attached
    at definition, by add_effects, on a bare Computation, below another dataset) under every sub-dictionary and every
    state of the effects switch (unset / false / true option, per-dataset toggle): the absent keys explain() lists are
    exactly what validate() still needs, keys() is covered, a validate failure names a listed key."""
    import itertools

    from labrea import Option, dataset, pipeline_step
    from labrea.computation import CallbackEffect, Computation

    @pipeline_step
    def audit(value, target=Option("T.X"), mode=Option("B", "m")):
        return None

    def sink(value):
        return None

    def graphs():
        @dataset(effects=[Option("CB")])
        def at_definition_evaluatable(a=Option("A", 1)):
            return a

        @dataset(effects=[audit])
        def at_definition_step(a=Option("A")):
            return a

        @dataset
        def added_later(a=Option("A")):
            return a

        added_later.add_effects(audit, Option("CB"))

        @dataset.nocache
        def downstream(x=at_definition_step, c=Option("C", 0)):
            return (x, c)

        @dataset(effects=[audit])
        def toggled(a=Option("A")):
            return a

        toggled.disable_effects()
        return {"effects=[Option]": at_definition_evaluatable, "effects=[step]": at_definition_step, "add_effects": added_later,
                "downstream": downstream, "Computation": Computation(Option("A"), CallbackEffect(audit)), "toggled-off": toggled}

    full = {"A": 2, "CB": sink, "T": {"X": "t"}, "B": "b", "C": 3}
    paths = ["A", "CB", "T.X", "B", "C"]
    for name in graphs():
        for r_ in range(len(paths) + 1):
            for present in itertools.combinations(paths, r_):
                for switch in ("unset", False, True):
                    g = graphs()[name]
                    o = {}
                    for k in present:
                        o = U.set_path(o, k, U.lookup(k, full))
                    if switch != "unset":
                        o = {**o, "LABREA": {"EFFECTS": {"DISABLED": switch}}}
                    W = {"family": "effect-options", "graph": name, "options": repr(o)}
                    ex = observe(g.explain, dict(o))
                    ks = observe(g.keys, dict(o))
                    va = observe(g.validate, dict(o))
                    ctx.evaluations += 3
                    ctx.count("effect_option_cases")
                    if ex[0] != "ok":
                        ctx.violation("explain-raises-other-error", f"{name}: explain failed: {short(ex)}", W)
                        return
                    explained = {k[1] for k in ex[1][1]}
                    missing = {k for k in explained if not U.present(k, o)}
                    if ks[0] == "ok" and not {k[1] for k in ks[1][1]} <= explained:
                        ctx.violation("explain-misses-keys", f"{name}: keys {short(ks)} not covered by explain {sorted(explained)}", W)
                        return
                    if bool(missing) == (va[0] == "ok"):
                        ctx.violation("explain-validate-disagree-on-effect-option", f"{name} on {short(o)}: explain lists absent {sorted(missing)}, validate {'passes' if va[0] == 'ok' else 'fails: ' + short(va)}", W)
                        return
                    if va[0] == "err" and va[1] == "KeyNotFoundError" and va[2] not in explained:
                        ctx.violation("validate-names-unlisted-key", f"{name}: validate fails for {va[2]!r}, explain lists {sorted(explained)}", W)
                        return
                    if switch is True:
                        ctx.count("effect_option_cases_effects_off")
                    ctx.nontrivial(spec_hash(["effect-options", name, sorted(present), str(switch)]))


def datasetclass_explain(ctx, i):
    """Dataset classes (generated like C19's: inherited / un-annotated / dotted / dispatching members): explain covers
    keys, its absent keys are exactly what validate still needs, a missing-key failure names a listed key."""
    from .c19 import gen_options, make_class

    r = case_rng(ctx, ("dc", i))
    cls, members, raw = make_class(r)
    relevant = sorted({k for _, ks in members.values() for k in ks})
    for _ in range(5):
        o = gen_options(r, relevant)
        for k in r.sample(relevant, min(len(relevant), r.choice([0, 1, 2, 3]))):
            o = U.del_path(o, k)
        ex = observe(cls.explain, copy.deepcopy(o))
        ks = observe(cls.keys, copy.deepcopy(o))
        va = observe(cls.validate, copy.deepcopy(o))
        ctx.evaluations += 3
        ctx.count("datasetclass_explain_cases")
        W = {"family": "datasetclass", "case": i, "shard": ctx.shard, "shards": ctx.shards, "members": {k: list(v) for k, v in members.items()}, "options": o}
        if ex[0] != "ok":
            if ex[1] != "InsufficientInformationError":
                ctx.violation("explain-raises-other-error", f"dataset class explain(o) raised {short(ex)}", W)
                return
            continue
        explained = {k[1] for k in ex[1][1]}
        missing = {k for k in explained if not U.present(k, o)}
        if ks[0] == "ok" and not {k[1] for k in ks[1][1]} <= explained:
            ctx.violation("explain-misses-keys", f"dataset class: keys(o)={short(ks)} not covered by explain(o)={sorted(explained)}", W)
            return
        if bool(missing) == (va[0] == "ok"):
            ctx.violation("explain-validate-disagree", f"dataset class: explain lists absent {sorted(missing)}, validate {'passes' if va[0] == 'ok' else 'fails: ' + short(va)}", W)
            return
        if va[0] == "err" and va[1] == "KeyNotFoundError" and va[2] not in explained:
            ctx.violation("validate-names-unlisted-key", f"dataset class: validate fails for {va[2]!r}, explain lists {sorted(explained)}", W)
            return
        if missing:
            ctx.nontrivial(spec_hash(["dc-explain", sorted(members.items()), o]))


def run(ctx):
    rng = ctx.rng
    for i in range(ctx.n(300, 6000)):
        datasetclass_explain(ctx, i)
    if ctx.shard == 0:
        effect_case(ctx)
    dicts = [d for d in directed.dictionaries() if U.closed(d) and not any(isinstance(d.get(k), dict) for k in ("A", "B", "C"))
             and not any(isinstance(v2, dict) for v in d.values() if isinstance(v, dict) for v2 in v.values())]
    for i, p in enumerate(directed.programs()):
        if i % ctx.shards != ctx.shard:
            continue
        name = p.pop("name")
        if name in ("domain", "uc-domain-spec", "allopts"):
            continue
        sel = selector_datasets(p)
        G = build(p)
        for o in dicts:
            one(ctx, p, o, G, sel, f"directed:{name}")
        full = {"A": 1, "B": "b", "C": 3, "D": "x", "E": "y", "S": {"X": 1, "Y": 2}, "T": {"X": 4}, "L": [5, 6]}
        fill_loop(ctx, p, full, G, sel, f"directed:{name}")
        for o in U.sub_dictionaries(full, limit=64 if ctx.quick else 256):
            ctx.count("subdictionary_cases")
            one(ctx, p, o, G, sel, f"directed:{name}:sub")
    n = ctx.n(700, 12000)
    for i in range(n):
        r = case_rng(ctx, i)
        program = program_for(r, r.choice([1, 2, 3]), features=FEATURES, n_datasets=r.choice([0, 1, 2, 3]))
        sel = selector_datasets(program)
        G = build(program)
        keys = sorted(mentioned_keys(program)) or None
        for o in U.history(r, 3, keys, p_present=0.6, closed_only=True):
            one(ctx, program, o, G, sel, "random")
        # a sufficient dictionary, all its sub-dictionaries and the fill loop
        for _ in range(4):
            full = U.random_options(r, p_present=0.95, templated=0.0, closed_only=True)
            with labrea.cache.disabled():
                if observe(G.root.validate, copy.deepcopy(full))[0] == "ok":
                    break
        else:
            continue
        fill_loop(ctx, program, full, G, sel, "random")
        relevant = {k: v for k, v in full.items() if any(m == k or m.startswith(k + ".") for m in (keys or []))}
        for o in U.sub_dictionaries(relevant, limit=24 if ctx.quick else 128):
            ctx.count("subdictionary_cases")
            one(ctx, program, o, G, sel, "random:sub")


def replay(ctx, rep):
    w = rep["witness"]
    if w.get("family") == "datasetclass":
        ctx.shard, ctx.shards = w.get("shard", 0), w.get("shards", 1)
        datasetclass_explain(ctx, w["case"])
        return
    G = build(w["program"])
    one(ctx, w["program"], w["options"], G, selector_datasets(w["program"]), "replay")
