"""C09 — templates substitute options and parameters transitively and report their reads.

Value oracle: the independent substitution of lvf.universe (via the reference
interpreter).  Key-reporting oracle needs no model at all: perturb / delete /
add each dotted path of the dictionary on the real code; whenever the uncached
outcome changes, the path must be covered by keys(o) (present paths) or listed
by explain(o) (absent paths).
"""
import copy

from .. import boot  # noqa: F401
import labrea.cache

from .. import universe as U
from ..build import build
from ..cases import case_rng
from ..gen import spec_hash
from ..outcome import observe, short
from ..ref import Ref, related

PROPERTY = "C09"
LEVEL = "exploration"
RULE = (
    "subject = Template / Option-with-templated-value-or-default / dataset over them, template text = up to 4 pieces "
    "from {literal, {KEY}, {DOTTED.KEY}, {L.i}, {:param:}, escaped braces}, parameters = constants, options, datasets "
    "(brace-free string forms); dictionaries whose values are templated strings or containers holding them, reference "
    "depth <= 3, dangling references included.  (1) evaluate vs independent substitution incl. missing-key failures "
    "naming an absent referenced key; (2) for every present path whose deletion/change alters the uncached outcome the "
    "path must be related to a key of keys(o); for every absent path whose addition alters it, to a key of explain(o). "
    "distinct = sha1(subject, o); non-trivial = the substitution followed at least one reference (depth >= 1) or the "
    "perturbation of a path changed the outcome."
)
ASSUMPTIONS = [
    "mid-string references point at scalars, strings or lists (str(dict) contains braces, which confectioner re-resolves); whole-string references may be containers",
    "a substituted text that itself contains braces is re-resolved by the library: covered by the recorded finding template-reresolves-substituted-braces, otherwise not generated",
]
FLOORS = {"values_compared": (6000, 100000), "missing_key_failures": (800, 15000), "transitive_substitutions": (1200, 20000),
          "outcome_changing_present_paths": (4000, 80000), "outcome_changing_absent_paths": (800, 15000), "escaped_brace_cases": (300, 5000), "hostile_key_steps": (8000, 150000), "hostile_fail_then_complete": (300, 6000), "whole_parameter_cases": (14, 14), "shadowing_parameter_cases": (10, 10)}
SHARDS_QUICK = 4

PIECES = ["lit", "-", "{A}", "{B}", "{C}", "{S.X}", "{S.Y}", "{T.X}", "{L.0}", "{L.1}", "{D}", "{:p:}", "{:q:}", "\\{esc\\}", "x\\{y\\}z",
          # references to legal option names that are not identifiers (dash, space, slash) and to the LAST list element
          "{K-1}", "{K 2}", "{IN/OUT}", "{L.-1}"]
VALS = [0, 1, -1, True, None, "", "a", "b", "{A}", "{B}", "{C}", "p{T.X}q", "{S.Y}", "{S.X}-{B}", "{L.0}", [1, "{B}"], ["a"], "{Q}", "{K-1}", "x{K 2}", ["{IN/OUT}"], "{L.-1}",
        # containers mixing templated members and nested sections / lists, in both orders (every member must be walked)
        {"p": "{B}", "q": {"r": "{C}"}}, ["{B}", {"r": "{C}"}], {"q": {"r": "{C}"}, "p": "{B}"}, [["{D}"], {"k": ["{B}", 2]}, "{C}"],
        {"u": {"v": {"w": "{B}"}}, "x": ["{C}", {"y": "{D}"}]}]


def gen_text(r):
    return "".join(r.choice(PIECES) for _ in range(r.choice([1, 2, 3, 4])))


def gen_options(r):
    for _ in range(40):
        o = {}
        for k in ("A", "B", "C", "D", "K-1", "K 2", "IN/OUT"):
            if r.random() < (0.7 if len(k) == 1 else 0.5):
                o[k] = copy.deepcopy(r.choice(VALS))
        for sec, subs in (("S", ("X", "Y")), ("T", ("X",))):
            if r.random() < 0.7:
                o[sec] = {s: copy.deepcopy(r.choice(VALS)) for s in subs if r.random() < 0.75}
        if r.random() < 0.6:
            o["L"] = [copy.deepcopy(r.choice(VALS[:14])) for _ in range(r.choice([0, 1, 2]))]
        try:
            U.substitute_all_tolerant(o)
        except RecursionError:
            continue
        if not brace_hazard(o):
            return o
    return {}


def has_dict(v):
    return isinstance(v, dict) or (isinstance(v, list) and any(has_dict(x) for x in v))


def _all_strings(v):
    if isinstance(v, dict):
        for x in v.values():
            yield from _all_strings(x)
    elif isinstance(v, list):
        for x in v:
            yield from _all_strings(x)
    elif isinstance(v, str):
        yield v


def reaches(k, o, pred, depth=0):
    """Does the (transitive) textual substitution of key k pull in a value satisfying pred?"""
    t = U.lookup(k, o)
    if t is U.ABSENT or depth > 8:
        return False
    if pred(t):
        return True
    return any(reaches(k2, o, pred, depth + 1) for s in _all_strings(t) for k2 in U.template_keys(s))


def brace_hazard(o, texts=()):
    """A dict (at any depth) or a string with escaped braces pulled into the middle of another string: its string form
    contains braces, which the library re-resolves (documented restriction / recorded finding)."""
    for s in list(_all_strings(o)) + list(texts):
        keys = U.template_keys(s)
        whole = len(keys) == 1 and s == "{" + keys[0] + "}"
        for k in keys:
            if not whole and reaches(k, o, has_dict):
                return True
            if reaches(k, o, lambda t: isinstance(t, str) and "\\" in t):
                return True
    return False


def program_texts(program):
    out = []

    def walk(x):
        if isinstance(x, dict):
            if x.get("k") == "tmpl":
                out.append(x["text"])
            if x.get("dk") in ("tmpl", "const") and isinstance(x.get("dv"), str):
                out.append(x["dv"])
            for v in x.values():
                walk(v)
        elif isinstance(x, list):
            for v in x:
                walk(v)

    walk(program)
    return out


def gen_subject(r):
    kind = r.choice(["tmpl", "tmpl", "tmpl", "opt-value", "opt-default", "ds"])
    text = gen_text(r)
    params = []
    for p in ("p", "q"):
        if "{:" + p + ":}" in text:
            params.append([p, r.choice([{"k": "const", "v": r.choice([0, "pp", None, True])},
                                        {"k": "opt", "key": r.choice(["D", "E", "B"]), "dk": "const", "dv": r.choice(["dd", 1])},
                                        {"k": "apply", "src": {"k": "ds", "id": "1"}, "fn": "tostr", "n": 1},
                                        # parameters that report an option the text reads as well WITHOUT reporting what that
                                        # option's value refers to under the caller's dictionary (a pre-set shadows it; AllOptions
                                        # reports top-level keys only)
                                        {"k": "with", "spec": {"k": "opt", "key": r.choice(["A", "B", "C"]), "dk": "const", "dv": "wd"}, "P": {r.choice(["A", "B", "C", "D"]): r.choice(["preset", 0])}, "force": True},
                                        {"k": "apply", "src": {"k": "allopts"}, "fn": "tostr", "n": 2}])])
    if params and r.random() < 0.25:
        # a parameter NAMED like an option the same text reads ({A} and {:A:} are different things)
        old, new = params[0][0], r.choice(["A", "B", "C", "D"])
        text = text.replace("{:" + old + ":}", "{:" + new + ":}")
        params[0][0] = new
        if "{" + new + "}" not in text:
            text += "{" + new + "}"
    tmpl = {"k": "tmpl", "text": text, "params": params}
    datasets = {"1": {"args": [["b", {"k": "opt", "key": "B", "dk": "const", "dv": "nb"}]]}}
    if kind == "tmpl":
        root = tmpl
    elif kind == "opt-value":
        root = {"k": "opt", "key": r.choice(["A", "S.X", "S", "L", "L.0", "C"])}
    elif kind == "opt-default":
        plain = "".join(x for x in [r.choice(PIECES[:11]) for _ in range(r.choice([1, 2, 3]))])
        root = {"k": "opt", "key": r.choice(["A", "S.X", "E"]), "dk": "tmpl", "dv": plain}
    else:
        datasets["2"] = {"args": [["t", tmpl], ["o", {"k": "opt", "key": "A", "dk": "tmpl", "dv": "{S.X}/{B}"}]]}
        root = {"k": "ds", "id": "2"}
    return {"datasets": datasets, "root": root}


def depth_of(program, o):
    reads = set()
    try:
        Ref(program).run(o)
    except RecursionError:
        return 0
    n = 0
    for v in _strings(o):
        if U.template_keys(v):
            n += 1
    return n


def _strings(v):
    if isinstance(v, dict):
        for x in v.values():
            yield from _strings(x)
    elif isinstance(v, list):
        for x in v:
            yield from _strings(x)
    elif isinstance(v, str):
        yield v


def acyclic(o):
    try:
        U.substitute_all_tolerant(o)
        return True
    except RecursionError:
        return False


def uncached(G, o):
    with labrea.cache.disabled():
        return observe(G.root.evaluate, copy.deepcopy(o))


def case(ctx, program, o, tag="random"):
    G = build(program)
    ref = Ref(program)
    try:
        exp = ref.run(o)
    except RecursionError:
        return
    got = uncached(G, o)
    ctx.evaluations += 1
    ctx.count("values_compared")
    W = {"program": program, "options": o, "real": repr(got), "ref": repr(exp), "source": tag}
    ok = got[0] == exp[0] and got[1] == exp[1]
    if ok and got[0] == "err" and got[1] == "KeyNotFoundError":
        from ..ref import RefErr

        cands = set()
        try:
            Ref(program).eval(program["root"], o)
        except RefErr as e:
            cands = e.candidates
        ctx.count("missing_key_failures")
        if got[2] not in cands:
            ctx.violation("missing-key-misnamed", f"failure names {got[2]!r}, absent referenced keys are {sorted(cands)}", W)
            return
    if not ok:
        ctx.violation("template-value", f"evaluate() = {short(got)} but independent substitution gives {short(exp)}", W)
        return
    text = program["root"].get("text", "") if program["root"]["k"] == "tmpl" else ""
    if "\\" in text:
        ctx.count("escaped_brace_cases")
    if got[0] == "ok" and any(U.template_keys(s) for s in _strings(o)):
        ctx.count("transitive_substitutions")
    # key reporting
    with labrea.cache.disabled():
        ks = observe(G.root.keys, copy.deepcopy(o))
        ex = observe(G.root.explain, copy.deepcopy(o))
    explained = set(k[1] for k in ex[1][1]) if ex[0] == "ok" else None
    nontrivial = False
    # absent paths: an option that is required (its absence makes the evaluation fail with a missing-key error)
    # must be listed by explain(); optional keys with defaults are legitimately not listed (see C11)
    if explained is not None and got[0] == "err" and got[1] == "KeyNotFoundError":
        for p in ["A", "B", "C", "D", "E", "S.X", "S.Y", "T.X", "L", "Q"]:
            if U.present(p, o):
                continue
            parent = p.rsplit(".", 1)[0] if "." in p else None
            if parent and U.present(parent, o) and not isinstance(U.lookup(parent, o), dict):
                continue
            o2 = U.set_path(o, p, ["v"] if p == "L" else "vv")
            got2 = uncached(G, o2)
            ctx.evaluations += 1
            if got2 != got and (got2[0] == "ok" or got2[2] != got[2]) and got[2] == p:
                ctx.count("outcome_changing_absent_paths")
                nontrivial = True
                if not any(related(p, k) for k in explained):
                    ctx.violation("absent-read-not-explained", f"adding {p} changes the outcome ({short(got, 60)} -> {short(got2, 60)}) but explain(o)={sorted(explained)} does not list it",
                                  {**W, "path": p})
                    return
    if ks[0] != "ok":
        if nontrivial:
            ctx.nontrivial(spec_hash([program, o]))
        return
    keys = set(k[1] for k in ks[1][1])
    if explained is not None and not keys <= explained:
        ctx.violation("explain-misses-keys", f"keys(o)={sorted(keys)} not contained in explain(o)={sorted(explained)}", W)
        return
    for p in U.leaf_paths(o):
        for variant in ("delete", "change"):
            if variant == "delete":
                o2 = U.del_path(o, p)
            else:
                cur = U.lookup(p, o)
                if isinstance(cur, dict):
                    continue
                o2 = U.set_path(o, p, "zz") if not p.split(".")[0] == "L" or "." not in p else None
                if o2 is None:
                    lst = list(U.lookup("L", o))
                    idx = int(p.split(".")[1])
                    lst[idx] = "zz"
                    o2 = U.set_path(o, "L", lst)
            if o2 == o or not acyclic(o2):
                continue  # (deleting a list element can turn '{L.0}' into a reference to itself)
            got2 = uncached(G, o2)
            ctx.evaluations += 1
            if got2 != got:
                ctx.count("outcome_changing_present_paths")
                nontrivial = True
                lists = p.split(".")[0] == "L" and any(k.split(".")[0] == "L" for k in keys)
                if not any(related(p, k) for k in keys) and not lists:
                    ctx.violation("read-not-reported-by-keys", f"{variant} of {p} changes the outcome ({short(got, 60)} -> {short(got2, 60)}) but keys(o)={sorted(keys)} does not cover it",
                                  {**W, "path": p, "variant": variant})
                    return
    if nontrivial:
        ctx.nontrivial(spec_hash([program, o]))
        ctx.sample({"program": program, "options": o, "keys": sorted(keys), "outcome": short(got, 100)}, limit=3)


def hostile_keys(ctx, program, base, r, case):
    """keys() / explain() / evaluate() of one long-lived subject over a hostile history (lvf.hostile: the same
    dictionary object edited in place, a failing call followed by the completed same object, equal-but-differently
    typed dictionaries) must equal those of a fresh subject on a private copy - no state may survive a call."""
    from .. import hostile

    G = build(program)
    trail = []
    for label, obj in hostile.steps(r, base, ["A", "B", "C", "D", "E", "S.X", "S.Y", "T.X", "Q"]):
        snap = copy.deepcopy(obj)
        if not acyclic(snap):
            return
        trail.append([label, snap])
        fresh = build(program)
        for op in ("keys", "explain", "evaluate", "keys"):
            with labrea.cache.disabled():
                got = observe(getattr(G.root, op), obj)  # the caller's own object, no copy
                exp = observe(getattr(fresh.root, op), copy.deepcopy(snap))
            ctx.evaluations += 2
            ctx.count("hostile_key_steps")
            if got != exp:
                ctx.violation("state-survives-a-call", f"step {len(trail)} ({label}): {op}() of the long-lived subject gives {short(got)}, a fresh subject on a copy of the same dictionary {short(exp)}",
                              {"family": "hostile-keys", "program": program, "base": base, "case": case, "shard": ctx.shard, "shards": ctx.shards, "trail": trail[-3:]})
                return
        if label.startswith("same-object restore"):
            ctx.count("hostile_fail_then_complete")
    ctx.nontrivial(spec_hash(["hostile-keys", program, base, case]))


def whole_parameter(ctx):
    """A template that is exactly one parameter placeholder yields the string form of the parameter's value whatever
    that string looks like (braces included: a section, an empty dict, a set, a list of sections) - the parameter is a
    value, not template text."""
    from labrea import Option, Template, dataset

    def a_set():
        return {7}

    def sections():
        return [{"a": 1}, {"b": [2]}]

    o = {"S": {"X": 1, "Y": "{B}"}, "B": "b", "T": {}, "A": "a"}
    params = {"section": Option("S"), "empty-section": Option("T"), "empty-dict-default": Option("E", default_factory=dict),
              "set-from-dataset": dataset.nocache(a_set), "list-of-sections": dataset.nocache(sections), "plain": Option("A"), "number": Option("N", 3)}
    for name, p_ in params.items():
        for text, build_exp in (("{:p:}", lambda v: str(v)), ("{:p:}", lambda v: str(v))):
            t = Template(text, p=p_)
            with labrea.cache.disabled():
                want = observe(lambda: build_exp(p_.evaluate(copy.deepcopy(o))))
                got = observe(t.evaluate, copy.deepcopy(o))
                ks = observe(t.keys, copy.deepcopy(o))
                pk = observe(p_.keys, copy.deepcopy(o))
            ctx.evaluations += 2
            ctx.count("whole_parameter_cases")
            W = {"family": "whole-parameter", "parameter": name}
            if got != want:
                ctx.violation("template-value", f"Template('{{:p:}}', p={name}) gives {short(got)}; the string form of the parameter's value is {short(want)}", W)
                return
            if ks[0] == "ok" and pk[0] == "ok" and not set(k[1] for k in pk[1][1]) <= set(k[1] for k in ks[1][1]):
                ctx.violation("read-not-reported-by-keys", f"Template('{{:p:}}', p={name}): keys {short(ks)} do not cover the parameter's keys {short(pk)}", W)
                return
            ctx.nontrivial(spec_hash(["whole-parameter", name]))


def known_finding_reproducer(ctx):
    """Recorded finding: a substituted text that itself contains braces is resolved again."""
    from labrea import Option, Template

    cases = [
        (Template("{:p:}", p=Template("\\{x\\}")), {}, "{x}"),
        (Template("v={:p:}", p=Option("A")), {"A": "\\{lit\\}"}, "v={lit}"),
        (Template("<{A}>"), {"A": {"K": 1}}, "<{'K': 1}>"),
    ]
    for t, o, expected in cases:
        got = observe(t.evaluate, o)
        ctx.evaluations += 1
        if got != ("ok", ("s", expected)):
            ctx.violation("template-value", f"{t!r} on {o} gives {short(got)}, the substitution of the string forms is {expected!r}",
                          {"mechanism": "template-reresolves-substituted-braces", "template": repr(t), "options": o})


def shadowing_parameters(ctx):
    """A parameter that reports an option the text reads too, WITHOUT reporting what that option's value refers to in the
    caller's dictionary (a pre-set shadows it for the parameter only): the text's own reference still reads it."""
    def T(text, params):
        return {"datasets": {}, "root": {"k": "tmpl", "text": text, "params": params}}

    W = lambda key, P: {"k": "with", "spec": {"k": "opt", "key": key, "dk": "const", "dv": "wd"}, "P": P, "force": True}  # noqa: E731
    cases = [
        (T("{A}-{:p:}", [["p", W("A", {"B": "preset"})]]), [{"A": "{B}", "B": "caller"}, {"A": "{B}"}, {"A": "{B}", "B": 2, "C": 1}, {"A": "x{C}", "C": "{B}", "B": 1}]),
        (T("{:p:}/{S.X}", [["p", W("S.X", {"T": {"X": 0}})]]), [{"S": {"X": "{T.X}"}, "T": {"X": 5}}, {"S": {"X": "{T.X}"}}, {"S": {"X": ["{T.X}", "{A}"]}, "T": {"X": 1}, "A": 2}]),
        (T("{:p:}{:q:}{C}", [["p", W("C", {"A": 1})], ["q", W("C", {"B": 1})]]), [{"C": "{A}{B}", "A": "a", "B": "b"}, {"C": "{A}{B}", "A": "a"}, {"C": ["{A}", "{B}"], "B": "b", "A": 0}]),
    ]
    for program, dicts in cases:
        for o in dicts:
            ctx.count("shadowing_parameter_cases")
            case(ctx, program, o, tag="shadowing-parameter")


def run(ctx):
    if ctx.shard == 0:
        known_finding_reproducer(ctx)
        whole_parameter(ctx)
        shadowing_parameters(ctx)
    n = ctx.n(2400, 40000)
    for i in range(n):
        r = case_rng(ctx, i)
        program = gen_subject(r)
        texts = program_texts(program)
        if i % 3 == 0:
            hostile_keys(ctx, program, gen_options(r), case_rng(ctx, ("hostile", i)), i)
        for _ in range(3):
            o = gen_options(r)
            if brace_hazard(o, texts):
                ctx.count("skipped_dict_mid_string")
                continue
            case(ctx, program, o)


def replay(ctx, rep):
    w = rep["witness"]
    if w.get("family") == "whole-parameter":
        whole_parameter(ctx)
    elif w.get("family") == "hostile-keys":
        ctx.shard, ctx.shards = w.get("shard", 0), w.get("shards", 1)
        hostile_keys(ctx, w["program"], w["base"], case_rng(ctx, ("hostile", w["case"])), w["case"])
    elif "program" in w:
        case(ctx, w["program"], w["options"], "replay")
    else:
        known_finding_reproducer(ctx)
