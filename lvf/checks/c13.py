"""C13 — pipelines compose associatively; step parameters come from options and are keyed.

Oracle: plain Python composition of the same probe functions; a hand-written
table maps every helper of labrea.functions (enumerated by reflection) to the
builtin operation with its operand order.
"""
import copy
import itertools
import types as _types

from .. import boot  # noqa: F401
import labrea.functions as F
from labrea import Option, Value, pipeline_step
from labrea.pipeline import Pipeline, PipelineStep
from labrea.types import Evaluatable

from .. import universe as U
from ..cases import case_rng
from ..gen import spec_hash
from ..outcome import canon, observe, short

PROPERTY = "C13"
LEVEL = "exploration"
RULE = (
    "(a) all sequences up to length 4 over 9 step kinds (decorated steps with option-valued parameters, plain "
    "callables, helper steps, raw Evaluatable[Callable] operands, nested pipelines, empty pipelines) x all bracketings (quick: exhaustive to length 3, "
    "sampled at 4; thorough: exhaustive to 4, random to 6): transform results of every bracketing equal the plain "
    "Python composition, Pipeline() is a left and right identity, (p+q).transform = q.transform o p.transform, "
    "list(pipeline) composes to the pipeline, (e >> p)(o) == p.transform(e(o), o); option-valued parameters are read "
    "at evaluation time and appear in keys()/explain(); (b) every public helper of labrea.functions (reflection; a "
    "helper without a table row makes the run inconclusive) x inputs x {argument as constant, argument as Option}.  "
    "distinct = sha1(case); non-trivial = the sequence has >= 2 non-commuting steps or the helper argument came "
    "from an option."
)
ASSUMPTIONS = ["helper parameters annotated Any (eq/ne/gt/ge/lt/le value, call_method args) are exercised as constants only"]
FLOORS = {"bracketings_compared": (1500, 30000), "identity_checks": (400, 8000), "split_checks": (1500, 30000), "rshift_checks": (400, 8000),
          "param_key_checks": (400, 8000), "reuse_checks": (300, 6000), "helper_cases": (281, 281), "helper_cases_with_option_argument": (156, 156), "helpers_covered": (60, 60), "helper_reapplications": (272, 272), "pipeline_history_steps": (3000, 60000), "stateful_step_evaluations": (36, 36), "templated_parameter_checks": (150, 3000), "mutable_constant_parameter_evaluations": (20, 20)}
SHARDS_QUICK = 2


class NC:
    """Value with non-commutative arithmetic: every operator returns a tagged tuple showing operand order."""

    def __init__(self, v):
        self.v = v

    def _t(self, op, other):
        return (op, self.v, getattr(other, "v", other))

    def __add__(self, o):
        return self._t("add", o)

    def __sub__(self, o):
        return self._t("sub", o)

    def __mul__(self, o):
        return self._t("mul", o)

    def __truediv__(self, o):
        return self._t("div", o)

    def __mod__(self, o):
        return self._t("mod", o)

    def __neg__(self):
        return ("neg", self.v)

    def __eq__(self, o):
        return isinstance(o, NC) and o.v == self.v

    def __hash__(self):
        return hash(("NC", self.v))

    def __repr__(self):
        return f"NC({self.v!r})"


# ---------------------------------------------------------------------------
# (a) pipeline algebra


def make_steps():
    """name -> (labrea step factory, python function (x, o) -> value, keys it reads)"""

    @pipeline_step
    def s_add(x, amount=Option("AMOUNT", "a")):
        return ("add", x, amount)

    @pipeline_step
    def s_two(x, p=Option("S.P", 1), q=Option("Q")):
        return ("two", x, p, q)

    def plain(x):
        return ("plain", x)

    inner = Pipeline() + (lambda x: ("in1", x)) + s_add

    def lookup(o, key, default=KeyError):
        cur = o
        for part in key.split("."):
            if not isinstance(cur, dict) or part not in cur:
                if default is KeyError:
                    raise KeyError(key)
                return default
            cur = cur[part]
        return cur

    table = {
        "s_add": (lambda: s_add, lambda x, o: ("add", x, lookup(o, "AMOUNT", "a")), {"AMOUNT"}),
        "s_two": (lambda: s_two, lambda x, o: ("two", x, lookup(o, "S.P", 1), lookup(o, "Q")), {"S.P", "Q"}),
        "plain": (lambda: plain, lambda x, o: ("plain", x), set()),
        "helper": (lambda: F.add(Option("H", ("h",))), lambda x, o: x + tuple(lookup(o, "H", ("h",))), {"H"}),
        "nested": (lambda: inner, lambda x, o: ("add", ("in1", x), lookup(o, "AMOUNT", "a")), {"AMOUNT"}),
        "empty": (lambda: Pipeline(), lambda x, o: x, set()),
        "tuple": (lambda: tuple, lambda x, o: tuple(x), set()),
        # raw Evaluatable[Callable] operands (neither PipelineStep nor Pipeline): documented MaybeEvaluatable input
        "raw_partial": (lambda: F.partial(_rp, k=Option("K", 2)), lambda x, o: ("rp", x, lookup(o, "K", 2)), {"K"}),
        "opt_callable": (lambda: Option("FN", plain), lambda x, o: lookup(o, "FN", plain)(x), {"FN"}),
    }
    return table


def _rp(x, k):
    return ("rp", x, k)


def _alt_fn(x):
    return ("alt", x)


def bracketings(items):
    """All ways to combine the list with a binary + (as nested pairs)."""
    if len(items) == 1:
        yield items[0]
        return
    for i in range(1, len(items)):
        for left in bracketings(items[:i]):
            for right in bracketings(items[i:]):
                yield (left, right)


def build_tree(tree, table):
    if isinstance(tree, tuple):
        a, b = build_tree(tree[0], table), build_tree(tree[1], table)
        if not isinstance(a, (Pipeline, PipelineStep)):
            a = Pipeline() + a
        return a + b
    return table[tree][0]()


def algebra_case(ctx, names, o, x, all_brackets=True):
    table = make_steps()
    W = {"steps": names, "options": o, "input": repr(x)}

    # option values may be templated strings (chains of references included): the plain computation works on the
    # dictionary with every reference resolved, independently of the library
    resolved = U.substitute(o, o) if U.contains_template({k: v for k, v in o.items() if isinstance(v, (str, list, dict))}) else o

    def py(seq, xx):
        for n in seq:
            xx = table[n][1](xx, resolved)
        return xx

    try:
        expected = ("ok", canon(py(names, x)))
    except KeyError:
        expected = ("err",)
    trees = list(bracketings(list(names)))
    if not all_brackets and len(trees) > 3:
        trees = trees[:1] + trees[-2:]
    for tree in trees:
        pipe = build_tree(tree, table)
        if not isinstance(pipe, (Pipeline, PipelineStep)):
            pipe = Pipeline() + pipe
        got = observe(pipe.transform, x, copy.deepcopy(o))
        ctx.evaluations += 1
        ctx.count("bracketings_compared")
        if (got[0] == "ok") != (expected[0] == "ok") or (got[0] == "ok" and got != expected):
            ctx.violation("bracketing-vs-python-composition", f"{tree!r}: transform gives {short(got)}, plain composition {short(expected)}", {**W, "tree": repr(tree)})
            return
    pipe = Pipeline()
    for n in names:
        pipe = pipe + table[n][0]()
    # identity on both sides
    for variant, p2 in (("left", Pipeline() + pipe), ("right", pipe + Pipeline())):
        got = observe(p2.transform, x, copy.deepcopy(o))
        ctx.count("identity_checks")
        if (got[0] == "ok") != (expected[0] == "ok") or (got[0] == "ok" and got != expected):
            ctx.violation("identity", f"empty pipeline on the {variant}: {short(got)} vs {short(expected)}", W)
            return
    # iteration order and composition of list(pipeline)
    steps = list(pipe)
    if expected[0] == "ok":
        xx = x
        for st in steps:
            xx = st.evaluate(copy.deepcopy(o))(xx)
        if canon(xx) != expected[1]:
            ctx.violation("iteration-order", f"composing list(pipeline) in order gives {short(canon(xx))}, the pipeline {short(expected)}", W)
            return
    # the evaluated pipeline is a plain function of its input: it can be applied any number of times
    if expected[0] == "ok":
        f = pipe.evaluate(copy.deepcopy(o))
        outs = [canon(f(copy.deepcopy(x))) for _ in range(3)]
        ctx.count("reuse_checks")
        if any(v != expected[1] for v in outs):
            ctx.violation("evaluated-pipeline-not-reusable", f"applying pipeline.evaluate(o) three times gives {short(outs)}; each should be {short(expected[1])}", W)
            return
        # ... also when it is the function argument of a helper (map over several elements)
        mapped = F.map(pipe)
        got_list = observe(lambda: list(mapped.transform([copy.deepcopy(x), copy.deepcopy(x)], copy.deepcopy(o))))
        if got_list != ("ok", ("L", (expected[1], expected[1]))):
            ctx.violation("evaluated-pipeline-not-reusable", f"F.map(pipeline) over two elements gives {short(got_list)}; each element should be {short(expected[1])}", W)
            return
    # split: (p + q).transform == q.transform(p.transform)
    for i in range(len(names) + 1):
        p, q = Pipeline(), Pipeline()
        for n in names[:i]:
            p = p + table[n][0]()
        for n in names[i:]:
            q = q + table[n][0]()
        ctx.count("split_checks")
        try:
            via = ("ok", canon(q.transform(p.transform(x, copy.deepcopy(o)), copy.deepcopy(o))))
        except Exception:  # noqa: BLE001
            via = ("err",)
        if (via[0] == "ok") != (expected[0] == "ok") or (via[0] == "ok" and via != expected):
            ctx.violation("split", f"q.transform(p.transform(x)) at {i}: {short(via)} vs {short(expected)}", W)
            return
    # e >> p
    e = Option("X0", x)
    got = observe((e >> pipe).evaluate, copy.deepcopy(o))
    ctx.count("rshift_checks")
    if (got[0] == "ok") != (expected[0] == "ok") or (got[0] == "ok" and got != expected):
        ctx.violation("rshift", f"(e >> p)(o) = {short(got)} but p.transform(e(o), o) = {short(expected)}", W)
        return
    # parameters are keyed
    need = set().union(*[table[n][2] for n in names]) if names else set()
    present = {k for k in need if _present(k, o)}
    for k in sorted(present):
        # ... and so is every option a present parameter's value refers to, transitively
        reads = set()
        U.substitute(U.lookup(k, o), o, reads)
        if reads:
            ctx.count("templated_parameter_checks")
        present |= reads
    ks = observe(pipe.keys, copy.deepcopy(o))
    ex = observe(pipe.explain, copy.deepcopy(o))
    ctx.count("param_key_checks")
    if ks[0] == "ok":
        got_keys = set(k[1] for k in ks[1][1])
        if not present <= got_keys:
            ctx.violation("parameter-not-in-keys", f"keys()={sorted(got_keys)} misses option-valued parameters {sorted(present - got_keys)}", W)
            return
    if ex[0] == "ok":
        got_ex = set(k[1] for k in ex[1][1])
        required = {k for k in need if k == "Q"} | present
        if not required <= got_ex:
            ctx.violation("parameter-not-in-explain", f"explain()={sorted(got_ex)} misses {sorted(required - got_ex)}", W)
            return
    if len([n for n in names if n not in ("empty",)]) >= 2:
        ctx.nontrivial(spec_hash(["alg", names, o, repr(x)]))
        ctx.sample({"steps": names, "options": o, "result": short(expected, 100)}, limit=2)


def _present(key, o):
    cur = o
    for part in key.split("."):
        if not isinstance(cur, dict) or part not in cur:
            return False
        cur = cur[part]
    return True


def read_at_evaluation_time(ctx):
    """The same pipeline object gives different results when the option changes (nothing is captured at build time)."""
    table = make_steps()
    pipe = Pipeline() + table["s_add"][0]() + table["s_two"][0]()
    a = pipe.transform((0,), {"AMOUNT": 1, "Q": "q1"})
    b = pipe.transform((0,), {"AMOUNT": 2, "Q": "q2", "S": {"P": 9}})
    ctx.count("param_key_checks")
    if a != ("two", ("add", (0,), 1), 1, "q1") or b != ("two", ("add", (0,), 2), 9, "q2"):
        ctx.violation("parameters-not-read-at-evaluation-time", f"{a!r} / {b!r}", {})


# ---------------------------------------------------------------------------
# (b) helper table


class Args:
    """Turns marked arguments into constants or Options (recording the option values)."""

    def __init__(self, as_option, with_default=False):
        self.as_option = as_option
        self.with_default = with_default
        self.options = {}
        self.n = 0

    def __call__(self, value):
        if not self.as_option:
            return value
        self.n += 1
        key = f"P{self.n}"
        self.options[key] = value
        # (with a default the key is only a dependency because it is PRESENT in the options explain() is given)
        return Option(key, default=value) if self.with_default else Option(key)


def inc(v):
    return v + 1


def is_pos(v):
    return v > 0


class Unordered:
    """A value that is not ordered with respect to anything (like NaN): every comparison is False."""

    def __lt__(self, other):
        return False

    __le__ = __gt__ = __ge__ = __lt__

    def __eq__(self, other):
        return False

    __hash__ = None

    def __repr__(self):
        return "Unordered()"


NAN = float("nan")


def kv_swap(k, v):
    return (v, k)


def helper_table():
    """name -> list of (builder(V) -> step, input, expected python value)"""
    NCa, NCb = NC("x"), NC("a")
    mp = _types.MappingProxyType
    T = {
        "partial": [(lambda V: F.partial(lambda a, b, c=0: (a, b, c), V(1), c=V(3)), None, "call:2", (1, 2, 3))],
        "map": [(lambda V: F.map(V(inc)), [1, 2, 3], [2, 3, 4])],
        "filter": [(lambda V: F.filter(V(is_pos)), [-1, 2, 0, 3], [2, 3])],
        "reduce": [(lambda V: F.reduce(V(lambda a, b: (a, b))), [1, 2, 3], ((1, 2), 3)),
                   (lambda V: F.reduce(V(lambda a, b: (a, b)), V("i")), [1, 2], (("i", 1), 2))],
        "into": [(lambda V: F.into(V(lambda a, b: ("ab", a, b))), (1, 2), ("ab", 1, 2)), (lambda V: F.into(V(lambda a, b: ("ab", a, b))), {"b": 1, "a": 2}, ("ab", 2, 1))],
        "flatten": [(lambda V: F.flatten, [[1], [2, 3], []], [1, 2, 3])],
        "flatmap": [(lambda V: F.flatmap(V(lambda v: [v, v * 10])), [1, 2], [1, 10, 2, 20])],
        "map_items": [(lambda V: F.map_items(V(kv_swap)), {"a": 1, "b": 2}, mp({1: "a", 2: "b"}))],
        "map_keys": [(lambda V: F.map_keys(V(str.upper)), {"a": 1}, mp({"A": 1}))],
        "map_values": [(lambda V: F.map_values(V(inc)), {"a": 1}, mp({"a": 2}))],
        "filter_items": [(lambda V: F.filter_items(V(lambda k, v: k == "a" or v > 5)), {"a": 1, "b": 2, "c": 9}, mp({"a": 1, "c": 9}))],
        "filter_keys": [(lambda V: F.filter_keys(V(lambda k: k != "a")), {"a": 1, "b": 2}, mp({"b": 2}))],
        "filter_values": [(lambda V: F.filter_values(V(is_pos)), {"a": -1, "b": 2}, mp({"b": 2}))],
        "concat": [(lambda V: F.concat(V([3, 4])), [1, 2], [1, 2, 3, 4])],
        "append": [(lambda V: F.append(V(9)), [1, 2], [1, 2, 9])],
        "intersect": [(lambda V: F.intersect(V([2, 3, 4])), [1, 2, 3], {2, 3})],
        "union": [(lambda V: F.union(V([3, 4])), [1, 3], {1, 3, 4})],
        "difference": [(lambda V: F.difference(V([2, 9])), [1, 2, 3], {1, 3})],
        "symmetric_difference": [(lambda V: F.symmetric_difference(V([2, 9])), [1, 2], {1, 9})],
        "get": [(lambda V: F.get(V("k")), {"k": 1}, 1), (lambda V: F.get(V(1)), ["a", "b"], "b"), (lambda V: F.get(V("zz"), V("dflt")), {"k": 1}, "dflt"),
                # (indexing is Python's: negative indices count from the end, with and without a default; out of range -> default)
                (lambda V: F.get(V(-1)), ["a", "b", "c"], "c"), (lambda V: F.get(V(-1), V("dflt")), ["a", "b", "c"], "c"), (lambda V: F.get(V(-3), V("dflt")), ("a", "b", "c"), "a"),
                (lambda V: F.get(V(-4), V("dflt")), ["a", "b", "c"], "dflt"), (lambda V: F.get(V(5), V("dflt")), "abc", "dflt"), (lambda V: F.get(V(-2), V("dflt")), "abc", "b"),
                (lambda V: F.get(V("zz")), {"k": 1}, KeyError)],
        "get_from": [(lambda V: F.get_from(V({"k": "v"})), "k", "v"), (lambda V: F.get_from(V(["a", "b"])), 1, "b"), (lambda V: F.get_from(V({"k": 1}), V("dflt")), "zz", "dflt")],
        "add": [(lambda V: F.add(V(NCb)), NCa, ("add", "x", "a")), (lambda V: F.add(V("cd")), "ab", "abcd")],
        "subtract": [(lambda V: F.subtract(V(NCb)), NCa, ("sub", "x", "a")), (lambda V: F.subtract(V(3)), 10, 7)],
        "multiply": [(lambda V: F.multiply(V(NCb)), NCa, ("mul", "x", "a"))],
        "left_multiply": [(lambda V: F.left_multiply(V(NCb)), NCa, ("mul", "a", "x"))],
        "divide_by": [(lambda V: F.divide_by(V(NCb)), NCa, ("div", "x", "a")), (lambda V: F.divide_by(V(4)), 2, 0.5)],
        "divide_into": [(lambda V: F.divide_into(V(NCb)), NCa, ("div", "a", "x")), (lambda V: F.divide_into(V(4)), 2, 2.0)],
        "negate": [(lambda V: F.negate, NCa, ("neg", "x")), (lambda V: F.negate, 3, -3)],
        "modulo": [(lambda V: F.modulo(V(NCb)), NCa, ("mod", "x", "a")), (lambda V: F.modulo(V(3)), 10, 1)],
        "merge": [(lambda V: F.merge(V({"b": 9, "c": 3})), {"a": 1, "b": 2}, {"a": 1, "b": 9, "c": 3}),
                  # {**x, **m} is shallow: a section on both sides is replaced, not merged
                  (lambda V: F.merge(V({"cfg": {"b": 2}, "l": [9]})), {"cfg": {"a": 1, "keep": True}, "n": 1, "l": [1, 2]}, {"cfg": {"b": 2}, "n": 1, "l": [9]})],
        "length": [(lambda V: F.length, [1, 2, 3], 3)],
        "instance_of": [(lambda V: F.instance_of(V(int), V(str)), "s", True), (lambda V: F.instance_of(V(int)), "s", False)],
        "all": [(lambda V: F.all(V(is_pos), V(lambda v: v < 5)), 3, True), (lambda V: F.all(V(is_pos), V(lambda v: v < 5)), 7, False)],
        "any": [(lambda V: F.any(V(is_pos), V(lambda v: v < -5)), -7, True), (lambda V: F.any(V(is_pos), V(lambda v: v < -5)), -1, False)],
        "invert": [(lambda V: F.invert(V(is_pos)), 3, False), (lambda V: F.invert(V(is_pos)), -3, True)],
        "eq": [(lambda V: F.eq(3), 3, True), (lambda V: F.eq(3), 4, False)],
        "ne": [(lambda V: F.ne(3), 3, False)],
        "gt": [(lambda V: F.gt(3), 4, True), (lambda V: F.gt(3), 3, False), (lambda V: F.gt(3), NAN, False), (lambda V: F.gt(3), Unordered(), False)],
        "ge": [(lambda V: F.ge(3), 3, True), (lambda V: F.ge(3), 2, False), (lambda V: F.ge(3), NAN, False), (lambda V: F.ge(3), Unordered(), False)],
        "lt": [(lambda V: F.lt(3), 2, True), (lambda V: F.lt(3), 3, False), (lambda V: F.lt(3), NAN, False), (lambda V: F.lt(3), Unordered(), False)],
        "le": [(lambda V: F.le(3), 3, True), (lambda V: F.le(3), 4, False), (lambda V: F.le(3), NAN, False), (lambda V: F.le(3), Unordered(), False)],
        "has_remainder": [(lambda V: F.has_remainder(V(5), V(2)), 12, True), (lambda V: F.has_remainder(V(5), V(2)), 11, False)],
        "positive": [(lambda V: F.positive, 1, True), (lambda V: F.positive, 0, False), (lambda V: F.positive, NAN, False), (lambda V: F.positive, Unordered(), False)],
        "negative": [(lambda V: F.negative, -1, True), (lambda V: F.negative, 0, False), (lambda V: F.negative, NAN, False), (lambda V: F.negative, Unordered(), False)],
        "non_positive": [(lambda V: F.non_positive, 0, True), (lambda V: F.non_positive, 1, False), (lambda V: F.non_positive, NAN, False), (lambda V: F.non_positive, Unordered(), False)],
        "non_negative": [(lambda V: F.non_negative, 0, True), (lambda V: F.non_negative, -1, False), (lambda V: F.non_negative, NAN, False), (lambda V: F.non_negative, Unordered(), False)],
        "even": [(lambda V: F.even, 4, True), (lambda V: F.even, 3, False)],
        "odd": [(lambda V: F.odd, 3, True), (lambda V: F.odd, 4, False)],
        "is_none": [(lambda V: F.is_none, None, True), (lambda V: F.is_none, 0, False)],
        "is_not_none": [(lambda V: F.is_not_none, None, False), (lambda V: F.is_not_none, 0, True)],
        "is_in": [(lambda V: F.is_in(V([1, 2])), 2, True), (lambda V: F.is_in(V("abc")), "d", False)],
        "is_not_in": [(lambda V: F.is_not_in(V([1, 2])), 2, False), (lambda V: F.is_not_in(V([1, 2])), 3, True)],
        "one_of": [(lambda V: F.one_of(V(1), V("a")), "a", True), (lambda V: F.one_of(V(1), V("a")), 2, False)],
        "none_of": [(lambda V: F.none_of(V(1), V("a")), "a", False), (lambda V: F.none_of(V(1), V("a")), 2, True)],
        "contains": [(lambda V: F.contains(V(2)), [1, 2], True), (lambda V: F.contains(V("z")), "abc", False)],
        "does_not_contain": [(lambda V: F.does_not_contain(V(2)), [1, 2], False), (lambda V: F.does_not_contain(V(5)), [1, 2], True)],
        "intersects": [(lambda V: F.intersects(V([2, 9])), [1, 2], True), (lambda V: F.intersects(V([8, 9])), [1, 2], False)],
        "disjoint_from": [(lambda V: F.disjoint_from(V([2, 9])), [1, 2], False), (lambda V: F.disjoint_from(V([8, 9])), [1, 2], True)],
        "ensure": [(lambda V: F.ensure(V(is_pos)), 3, 3), (lambda V: F.ensure(V(is_pos), V("must be positive")), -3, AssertionError)],
        "get_attribute": [(lambda V: F.get_attribute(V("real")), 3 + 4j, 3.0)],
        "call_method": [(lambda V: F.call_method(V("split"), ",", 1), "a,b,c", ["a", "b,c"]), (lambda V: F.call_method(V("format"), 1, k=2), "{}-{k}", "1-2")],
    }
    return T


def public_helpers():
    names = []
    for name, obj in vars(F).items():
        if name.startswith("_"):
            continue
        if isinstance(obj, PipelineStep) or (callable(obj) and getattr(obj, "__module__", None) == F.__name__ and not isinstance(obj, type)):
            names.append(name)
    return sorted(names)


def realise(v):
    if isinstance(v, _types.MappingProxyType):
        return ("mappingproxy", dict(v))
    if isinstance(v, (map, filter, itertools.chain, _types.GeneratorType)):
        return list(v)
    return v


def helpers(ctx):
    table = helper_table()
    for name in public_helpers():
        if name not in table:
            ctx.inconclusive.append(f"labrea.functions.{name} has no row in the helper table")
    for name, rows in table.items():
        if not hasattr(F, name):
            ctx.inconclusive.append(f"helper table row {name} has no counterpart in labrea.functions")
            continue
        ctx.count("helpers_covered")
        for row in rows:
            if len(row) == 4:
                builder, x, mode, expected = row
            else:
                builder, x, expected = row
                mode = "transform"
            for as_option in (False, True, "with-default"):
                V = Args(bool(as_option), with_default=as_option == "with-default")
                step = builder(V)
                if as_option and not V.options:
                    continue
                o = dict(V.options, NOISE=1)
                W = {"helper": name, "input": repr(x), "as_option": as_option, "expected": repr(expected)}

                def call():
                    if mode == "call:2":
                        return step.evaluate(o)(2)
                    if isinstance(step, (Pipeline, PipelineStep)):
                        return step.transform(copy.deepcopy(x), o)
                    return (Value(copy.deepcopy(x)) >> step).evaluate(o)

                ctx.evaluations += 1
                ctx.count("helper_cases")
                try:
                    got = realise(call())
                    ok = not (isinstance(expected, type) and issubclass(expected, Exception)) and got == realise(expected) and type(got) is type(realise(expected))
                    if isinstance(expected, float) and not ok:
                        ok = got == expected
                except Exception as e:  # noqa: BLE001
                    from ..outcome import root_cause

                    got = f"{type(root_cause(e)).__name__}"
                    ok = isinstance(expected, type) and isinstance(root_cause(e), expected)
                if not ok:
                    ctx.violation("helper-vs-python-operation", f"F.{name} on {x!r} ({'option' if as_option else 'constant'} argument): {got!r}, expected {expected!r}", W)
                    return
                # the evaluated step is an ordinary function: applying it again (directly, and element-wise under F.map)
                # must give the same answer every time (no one-shot state inside the evaluated helper)
                if mode == "transform" and isinstance(step, (Pipeline, PipelineStep)) and not (isinstance(expected, type) and issubclass(expected, Exception)):
                    try:
                        fn = step.evaluate(o)
                        again = [realise(fn(copy.deepcopy(x))) for _ in range(3)]
                        mapped = [realise(v) for v in F.map(step).transform([copy.deepcopy(x) for _ in range(3)], o)]
                    except Exception as e:  # noqa: BLE001
                        again = mapped = f"{type(e).__name__}: {e}"
                    ctx.count("helper_reapplications")
                    want = [realise(expected)] * 3
                    if again != want or mapped != want:
                        ctx.violation("helper-not-reusable", f"F.{name} on {x!r}: the evaluated step applied three times gives {again!r}, under F.map {mapped!r}; expected {want!r}", W)
                        return
                if as_option:
                    ctx.count("helper_cases_with_option_argument")
                    ks = set(step.keys(o))
                    ex = set(step.explain(o))
                    if not set(V.options) <= ks or not set(V.options) <= ex:
                        ctx.violation("helper-argument-not-keyed", f"F.{name}: option-valued arguments {sorted(V.options)} not all in keys()={sorted(ks)} / explain()={sorted(ex)}", W)
                        return
                    if "NOISE" in ks:
                        ctx.violation("helper-keys-too-wide", f"F.{name}: keys() contains a never-mentioned key", W)
                        return
                    ctx.nontrivial(spec_hash(["helper", name, repr(x), True]))
                else:
                    ctx.nontrivial(spec_hash(["helper", name, repr(x), False]))


STEP_NAMES = ["s_add", "s_two", "plain", "helper", "nested", "empty", "tuple", "raw_partial", "opt_callable"]
OPTIONS = [{"Q": "q"}, {"AMOUNT": 5, "Q": 0, "S": {"P": 7}, "H": ("hh",), "K": 9}, {"AMOUNT": None, "S": {"P": "sp"}, "FN": _alt_fn}, {}, {"Q": 1, "K": "k", "FN": _alt_fn},
           # parameter values that are references to other options, two and three levels deep, through sections and lists
           {"AMOUNT": "{BASE1}", "BASE1": "{BASE2}", "BASE2": 3, "Q": "{S.P}", "S": {"P": "{BASE2}"}, "K": "{BASE1}"},
           {"AMOUNT": ["{BASE1}", 1], "BASE1": "{CFG.SCALE}", "CFG": {"SCALE": "{BASE2}x"}, "BASE2": "b2", "Q": "q{AMOUNT.1}"}]


class _Acc:
    """A stateful callable object (a legal plain-callable step): counts how often it has been applied."""

    def __init__(self):
        self.seen = []

    def __call__(self, x):
        self.seen.append(x)
        return ("acc", x, len(self.seen))

    def method(self, x):
        return self(x)


def stateful_steps(ctx):
    """Plain callables that carry state (an object with __call__, a functools.partial with a mutable bound argument, a
    bound method): every evaluation of a pipeline works on its own copy of the step as it was built, so the composition
    laws hold for them like for pure functions whatever was evaluated before, and the user's own object is never touched."""
    import functools

    def bump(box, x):
        box.append(x)
        return ("bump", x, len(box))

    makers = {
        "callable-object": lambda: (lambda a: (a, a, lambda: len(a.seen)))(_Acc()),
        "bound-method": lambda: (lambda a: (a.method, a, lambda: len(a.seen)))(_Acc()),
        "partial-with-mutable-argument": lambda: (lambda box: (functools.partial(bump, box), box, lambda: len(box)))([]),
    }
    for name, make in makers.items():
        step, owner, used = make()
        tag = "bump" if name.startswith("partial") else "acc"
        p = Pipeline() + step
        q = Pipeline() + (lambda v: ("q", v))
        both = p + q
        W = {"family": "stateful-steps", "step": name}
        outs = []
        for _ in range(3):
            a = both.transform("x", {})
            b = q.transform(p.transform("x", {}), {})
            c = (Option("X0", "x") >> both).evaluate({})
            d = ((Pipeline() + step) + q).transform("x", {})
            outs.append((a, b, c, d))
            ctx.evaluations += 4
            ctx.count("stateful_step_evaluations", 4)
        want = ("q", (tag, "x", 1))
        if any(v != want for row in outs for v in row):
            ctx.violation("stateful-step-shares-state", f"{name}: (p + q).transform / q.transform(p.transform) / source >> pipeline / re-bracketed, three rounds: {outs}; every one should be {want}", W)
            return
        mapped = [list(F.map(step).transform(["a", "b"], {})) for _ in range(2)]
        if mapped != [[(tag, "a", 1), (tag, "b", 2)]] * 2:
            ctx.violation("stateful-step-shares-state", f"{name}: F.map(step) over two elements, twice: {mapped}", W)
            return
        if used() != 0:
            ctx.violation("stateful-step-shares-state", f"{name}: the user's own object was applied {used()} time(s) (evaluations must work on copies)", W)
            return
        ctx.nontrivial(spec_hash(["stateful-step", name]))


def mutable_constant_parameters(ctx):
    """A decorated step whose parameter default is a plain mutable constant (a list, a dict) that the step - or the
    caller, through the returned value - edits: the parameter is produced anew for every evaluation, so the laws hold
    whatever was evaluated before, under any option dictionary."""
    @pipeline_step
    def collect(x, seen=[], limits={"max": 1}, scale=Option("AMOUNT", 1)):  # noqa: B006
        seen.append(x)
        limits["max"] += 1
        return ("collect", list(seen), dict(limits), scale)

    @pipeline_step
    def hand_out(x, box=[0]):  # noqa: B006
        return box  # the caller receives the parameter object itself and edits it

    q = Pipeline() + (lambda v: ("q", v))
    p = Pipeline() + collect
    W = {"family": "mutable-constant-parameters"}
    for rnd, o in enumerate([{}, {"AMOUNT": 2}, {}, {"AMOUNT": 2}]):
        want = ("q", ("collect", ["x"], {"max": 2}, o.get("AMOUNT", 1)))
        outs = [(p + q).transform("x", dict(o)), q.transform(p.transform("x", dict(o)), dict(o)), (Option("X0", "x") >> (p + q)).evaluate(dict(o)), ((Pipeline() + collect) + q).transform("x", dict(o))]
        ctx.evaluations += 4
        ctx.count("mutable_constant_parameter_evaluations", 4)
        if any(v != want for v in outs):
            ctx.violation("parameter-not-evaluated-anew", f"round {rnd} under {o}: (p + q).transform / q.transform(p.transform) / source >> pipeline / re-bracketed give {outs}; every one should be {want}", W)
            return
        got = (Pipeline() + hand_out).transform("x", dict(o))
        ctx.count("mutable_constant_parameter_evaluations")
        if got != [0]:
            ctx.violation("parameter-not-evaluated-anew", f"round {rnd}: a step returning its constant parameter gave {got!r} (an earlier caller's edit is visible); expected [0]", W)
            return
        got.append("edited-by-the-caller")
    ctx.nontrivial(spec_hash(["mutable-constant-parameters"]))


def pipeline_history(ctx, names, r, case):
    """Step parameters are read from the options of EACH evaluation: one long-lived pipeline (and source >> pipeline)
    over a hostile history - a dictionary equal to the previous one but differently typed, the same dictionary object
    edited in place (nested and top level), a failing call (required parameter deleted in place) followed by the
    completed same object.  Oracle: plain Python composition over a private copy, type-strict."""
    table = make_steps()
    pipe = Pipeline()
    for n in names:
        pipe = pipe + table[n][0]()
    src = Option("X0", ("x",)) >> pipe
    A = {"AMOUNT": 1, "Q": 0, "S": {"P": 1, "Z": [1]}, "K": 2, "N1": 0}
    plan = [("first", lambda: A)]
    twin = {"AMOUNT": True, "Q": False, "S": {"P": 1.0, "Z": [True]}, "K": 2.0, "N1": 0}
    edits = [
        ("equal-but-differently-typed", lambda: copy.deepcopy(twin)),
        ("back-to-the-original-object", lambda: A),
        ("same-object nested edit", lambda: (A["S"].__setitem__("P", r.choice([7, "sp", None])), A)[1]),
        ("same-object top-level edit", lambda: (A.__setitem__("AMOUNT", r.choice([5, "am", 0.0])), A)[1]),
        ("same-object delete Q", lambda: (A.pop("Q", None), A)[1]),
        ("same-object restore Q", lambda: (A.__setitem__("Q", r.choice([0, "q", True])), A)[1]),
        ("same-object nested list grows", lambda: (A["S"]["Z"].append(2), A)[1]),
        ("same-object K edit", lambda: (A.__setitem__("K", r.choice([9, 2.0, True])), A)[1]),
    ]
    r.shuffle(edits)
    plan += edits[: r.choice([4, 6, 8])]

    def py(xx, o):
        for n in names:
            xx = table[n][1](xx, o)
        return xx

    trail = []
    for label, make in plan:
        obj = make()
        snap = copy.deepcopy(obj)
        trail.append([label, repr(snap)])
        try:
            exp = ("ok", canon(py(("x",), snap)))
        except KeyError:
            exp = ("err",)
        for how, call in (("transform", lambda: pipe.transform(("x",), obj)), ("source >> pipeline", lambda: src.evaluate(obj))):
            got = observe(call)
            ctx.evaluations += 1
            ctx.count("pipeline_history_steps")
            if (got[0] == "ok") != (exp[0] == "ok") or (got[0] == "ok" and got != exp):
                ctx.violation("parameters-not-read-at-evaluation", f"step {len(trail)} ({label}; {how}) of one long-lived pipeline {names}: {short(got)} but plain composition over that dictionary gives {short(exp)}",
                              {"family": "pipeline-history", "steps": names, "case": case, "shard": ctx.shard, "shards": ctx.shards, "trail": trail[-3:]})
                return
    ctx.nontrivial(spec_hash(["pipeline-history", names, case]))


def run(ctx):
    for i in range(ctx.n(400, 8000)):
        r = case_rng(ctx, ("hist", i))
        pipeline_history(ctx, [r.choice(["s_add", "s_two", "plain", "nested", "raw_partial", "s_add", "s_two"]) for _ in range(r.choice([1, 2, 3]))], r, i)
    if ctx.shard == 0:
        helpers(ctx)
        read_at_evaluation_time(ctx)
        stateful_steps(ctx)
        mutable_constant_parameters(ctx)
    k = 0
    max_exh = 3 if ctx.quick else 4
    for n in range(0, max_exh + 1):
        for names in itertools.product(STEP_NAMES, repeat=n):
            k += 1
            if k % ctx.shards != ctx.shard:
                continue
            o = OPTIONS[k % len(OPTIONS)]
            algebra_case(ctx, list(names), o, (k % 3,))
    for i in range(ctx.n(300, 6000)):
        r = case_rng(ctx, i)
        n = 4 if ctx.quick else r.choice([5, 6])
        names = [r.choice(STEP_NAMES) for _ in range(n)]
        algebra_case(ctx, names, r.choice(OPTIONS), (r.choice([0, "s", None]),), all_brackets=n <= 4)


def replay(ctx, rep):
    w = rep["witness"]
    if w.get("family") == "mutable-constant-parameters":
        mutable_constant_parameters(ctx)
    elif w.get("family") == "stateful-steps":
        stateful_steps(ctx)
    elif w.get("family") == "pipeline-history":
        ctx.shard, ctx.shards = w.get("shard", 0), w.get("shards", 1)
        pipeline_history(ctx, w["steps"], case_rng(ctx, ("hist", w["case"])), w["case"])
    elif "steps" in w:
        algebra_case(ctx, w["steps"], w["options"], (0,))
    else:
        helpers(ctx)
