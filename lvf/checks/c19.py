"""C19 — dataset classes: members are evaluations; equality follows relevant options.

Classes are synthesised with type() from generated members (options with flat
and dotted keys, datasets, constants, inherited members).  Oracle: member-wise
evaluation on the real code, and the independent dotted lookup for equality / repr.
"""
import copy
import itertools

from .. import boot  # noqa: F401
import labrea.cache
from labrea import Option, dataset, datasetclass

from .. import universe as U
from ..cases import case_rng
from ..gen import spec_hash
from ..outcome import canon, observe, short

PROPERTY = "C19"
LEVEL = "exploration"
RULE = (
    "class = 1-5 members drawn from {Option flat key, Option dotted key, Option with default, dataset over options, "
    "plain constant, member inherited from a base class}; for dictionaries o: each evaluatable attribute of C(o) equals "
    "member.evaluate(o), plain members their constant; class keys/validate/explain equal the union over members; for all "
    "pairs (o1, o2) from pools that differ only in irrelevant keys / only in relevant (incl. nested dotted) keys: "
    "C(o1) == C(o2) iff the restrictions of o1, o2 to the keys the class reports (independent dotted lookup) are equal; "
    "repr shows those keys with those values.  distinct = sha1(class, o1, o2); non-trivial = the pair differs in at "
    "least one key (relevant or not)."
)
ASSUMPTIONS = ["member option values are JSON scalars / lists; the class reports keys() on the instance's own options"]
FLOORS = {"instances_checked": (3000, 60000), "pairs_compared": (6000, 120000), "pairs_differing_only_in_relevant_dotted_key": (600, 12000),
          "pairs_differing_only_in_irrelevant_key": (1500, 30000), "union_checks": (3000, 60000), "repr_checks": (3000, 60000), "pairs_same_options_entries_reordered": (1500, 30000), "container_constants_checked": (1500, 30000), "option_members_edited": (3000, 60000), "caller_dictionary_edited_before_first_use": (3000, 60000)}
SHARDS_QUICK = 8

PRISTINE = {}  # id(constant object placed in a class body) -> deep copy taken at declaration
FLAT = ["A", "B", "C", "S2", "TX", "K-1"]  # (S2 / TX: names that merely BEGIN like the sections S / T)
DOTTED = ["S.X", "S.Y", "T.X"]


def make_class(r):
    members = {}  # name -> (kind, payload)
    ann = {}
    ns = {}
    base_ns = {}
    base_ann = {}
    n = r.choice([1, 2, 3, 4, 5])
    members_shared = {}
    for i in range(n):
        # (a single leading underscore is a naming convention, not a different kind of member)
        name = f"_m{i}" if r.random() < 0.25 else f"m{i}"
        kind = r.choice(["flat", "dotted", "dotted", "default", "dataset", "const", "inherited", "dispatching", "section", "derived", "derived"])
        target_ns, target_ann = (base_ns, base_ann) if kind == "inherited" else (ns, ann)
        if kind in ("flat", "inherited"):
            key = r.choice(FLAT)
            target_ns[name] = Option(key)
            members[name] = ("opt", [key])
        elif kind == "dotted":
            key = r.choice(DOTTED)
            target_ns[name] = Option(key)
            members[name] = ("opt", [key])
        elif kind == "section":
            # a member whose value is a whole section (a mapping: equality must not depend on its entry order)
            key = r.choice(["S", "T"])
            target_ns[name] = Option(key, {"X": "section-default"})
            members[name] = ("optdefault", [key])
        elif kind == "default":
            key = r.choice(FLAT + DOTTED)
            target_ns[name] = Option(key, r.choice([0, "d", None]))
            members[name] = ("optdefault", [key])
        elif kind == "dataset":
            k1, k2 = r.choice(FLAT), r.choice(DOTTED)

            def body(a=Option(k1), b=Option(k2, "bd")):
                return ("ds", a, b)

            target_ns[name] = dataset(body)
            members[name] = ("ds", [k1, k2])
        elif kind == "derived":
            # several members derived from ONE dataset (they share its store) with different pre-set / default options
            if "shared" not in members_shared:
                k1, k2 = r.choice(FLAT), r.choice(DOTTED)

                def shared_body(a=Option(k1, "f-dflt"), b=Option(k2, "d-dflt")):
                    return ("shared", a, b)

                members_shared["shared"] = (dataset(shared_body), k1, k2)
            shared, k1, k2 = members_shared["shared"]
            how = r.choice(["with_default_options", "with_default_options", "with_options", "itself"])
            preset = U.set_path({}, r.choice([k1, k2]), r.choice([10, 20, "p", None]))
            target_ns[name] = shared if how == "itself" else getattr(shared, how)(preset)
            members[name] = ("dynamic", [k1, k2])
        elif kind == "dispatching":
            # a dataset whose key set depends on an option VALUE (the overload selected by D reads another key)
            k1, k2 = r.choice(DOTTED), r.choice(FLAT)

            def dflt(a=Option(k2, "dflt")):
                return ("dflt", a)

            def alt(b=Option(k1, "alt-default")):
                return ("alt", b)

            d_ = dataset(dflt, dispatch=Option("D", "none"))
            d_.overload("alt")(alt)
            target_ns[name] = d_
            members[name] = ("dynamic", ["D", k1, k2])
        else:
            target_ns[name] = copy.deepcopy(r.choice([1, "const", None, [1, 2], ([0, 1], "closed"), {"k": [1]}, (1, ({"m": []},))]))
            members[name] = ("const", [])
            PRISTINE[id(target_ns[name])] = copy.deepcopy(target_ns[name])
        target_ann[name] = object
    base_ns["__annotations__"] = base_ann
    ns["__annotations__"] = ann
    bases = (type("Base", (), base_ns),) if base_ann else ()
    if bases and r.random() < 0.5:
        # the base is itself a dataset class, and it is used before the child is (history on the class objects)
        parent = datasetclass(bases[0])
        try:
            parent.keys({"A": 1, "B": 2, "C": 3, "S": {"X": 1, "Y": 2}, "T": {"X": 3}})
            parent.explain({})
            parent({"A": 1, "B": 2, "C": 3, "S": {"X": 1, "Y": 2}, "T": {"X": 3}})
        except Exception:  # noqa: BLE001
            pass
        bases = (parent,)
    cls = datasetclass(type("DC", bases, ns))
    return cls, members, {**base_ns, **ns}


def gen_options(r, relevant):
    o = {}
    for k in FLAT + DOTTED:
        if r.random() < (0.85 if k in relevant else 0.5):
            o = U.set_path(o, k, r.choice([0, 1, "a", "b", None, [1]]))
    # values that change WHICH keys a member reads: a templated value, a dispatch value
    if r.random() < 0.3:
        k = r.choice(FLAT)
        other = r.choice([x for x in FLAT if x != k])
        if U.present(other, o) and not isinstance(U.lookup(other, o), str):
            o[k] = "{" + other + "}"
    if r.random() < 0.5:
        o["D"] = r.choice(["alt", "none", "alt"])
    if r.random() < 0.4:
        o["N1"] = r.choice([0, 1])
    return o


def expected_keys(members, o):
    """Keys the class reports for o (present keys of its members), by independent lookup; None if a required key is absent."""
    keys = set()
    for name, (kind, ks) in members.items():
        if kind == "dynamic":
            continue
        for i, k in enumerate(ks):
            if U.present(k, o):
                keys.add(k)
                v = U.lookup(k, o)
                if isinstance(v, str):
                    for t in U.template_keys(v):  # a templated value also reads the referenced key
                        if not U.present(t, o):
                            return None
                        keys.add(t)
            elif kind == "opt" or (kind == "ds" and i == 0):
                return None
    return keys


def instance_case(ctx, cls, members, raw, o):
    exp_keys = expected_keys(members, o)
    if exp_keys is not None:
        for name, (kind, ks) in members.items():
            if kind == "dynamic":  # key set depends on option values: the member itself says which keys it reads
                mk = observe(raw[name].keys, copy.deepcopy(o))
                if mk[0] != "ok":
                    exp_keys = None
                    break
                exp_keys |= set(k[1] for k in mk[1][1])
    W = {"members": {k: list(v) for k, v in members.items()}, "options": o, "case": getattr(ctx, "current_case", None), "shard": ctx.shard, "shards": ctx.shards}
    got = observe(cls, copy.deepcopy(o))
    ctx.evaluations += 1
    ctx.count("instances_checked")
    if exp_keys is None:
        if got[0] == "ok":
            ctx.violation("instantiation-should-fail", f"a required member option is absent but C(o) succeeded", W)
        return None
    from ..hostile import scribble

    throwaway = cls(copy.deepcopy(o))
    for name, (kind, _ks) in members.items():
        if kind == "const":  # (a dataset member's value may be the object its cache holds: not the instance's to edit)
            scribble(getattr(throwaway, name))  # the owner of an instance may edit its plain members; later instances must not see it
    inst = cls(copy.deepcopy(o))
    for name, (kind, ks) in members.items():
        member = raw[name]
        attr = getattr(inst, name)
        if kind == "const":
            exp = PRISTINE.get(id(member), member)  # the declared constant as it was declared
        else:
            with labrea.cache.disabled():
                exp = member.evaluate(copy.deepcopy(o))
        if canon(attr) != canon(exp):
            ctx.violation("member-not-its-evaluation", f"C(o).{name} = {attr!r} but member.evaluate(o) = {exp!r}", {**W, "member": name})
            return None
        if kind == "const" and isinstance(attr, (list, dict, tuple)):
            ctx.count("container_constants_checked")
    # union semantics of keys / explain / validate
    ctx.count("union_checks")
    ks = set(cls.keys(copy.deepcopy(o)))
    if ks != exp_keys:
        ctx.violation("class-keys-not-union", f"C.keys(o) = {sorted(ks)} but the union over members is {sorted(exp_keys)}", W)
        return None
    ex = set(cls.explain(copy.deepcopy(o)))
    union_ex = set()
    for name, (kind, _) in members.items():
        if kind != "const":
            union_ex |= set(raw[name].explain(copy.deepcopy(o)))
    if ex != union_ex:
        ctx.violation("class-explain-not-union", f"C.explain(o) = {sorted(ex)} but the union over members is {sorted(union_ex)}", W)
        return None
    if observe(cls.validate, copy.deepcopy(o))[0] != "ok":
        ctx.violation("class-validate-fails", "C.validate(o) fails although every member validates", W)
        return None
    # repr shows the reported keys with their values
    ctx.count("repr_checks")
    shown = {}
    for k in sorted(exp_keys):
        shown = U.set_path(shown, k, U.lookup(k, o))
    rep = repr(inst)
    if rep != f"DC({shown!r})":
        ctx.violation("repr", f"repr = {rep} but the reported keys with their values are DC({shown!r})", W)
        return None
    # the owner of an instance may edit the values of its option members: equality, repr and the caller's dictionary
    # are about the options the instance was built from and must not follow such edits
    # the caller keeps using - and editing - the dictionary it built an instance from: what the instance is (==, repr)
    # was fixed when it was built, even if nobody has looked at it yet
    o_l = copy.deepcopy(o)
    late = cls(o_l)
    from ..hostile import _set

    for k in sorted(exp_keys)[:2]:
        try:
            _set(o_l, k, "edited-after-instantiation")
        except Exception:  # noqa: BLE001
            pass
    o_l["A"] = "edited-after-instantiation"
    o_l.pop("B", None)
    fresh = cls(copy.deepcopy(o))
    ctx.count("caller_dictionary_edited_before_first_use")
    try:
        same_ = (late == fresh, repr(late) == repr(fresh))
    except Exception as e:  # noqa: BLE001
        same_ = f"{type(e).__name__}: {e}"
    if same_ != (True, True):
        ctx.violation("equality", f"an instance built from o, whose caller then edited o in place before the first ==/repr: (== a fresh C(o), same repr) = {same_}", W)
        return None
    o_x = copy.deepcopy(o)
    x, y = cls(o_x), cls(copy.deepcopy(o))
    rep_x = repr(x)
    edited = False
    for name, (kind, ks) in members.items():
        if kind in ("opt", "optdefault") and isinstance(getattr(x, name), (list, dict)):
            scribble(getattr(x, name))
            edited = True
    if edited:
        ctx.count("option_members_edited")
        if o_x != o:
            ctx.violation("caller-dictionary-follows-member-edit", f"editing a member of C(o) changed the caller's dictionary: {o} -> {o_x}", W)
            return None
        if not (x == y) or repr(x) != rep_x:
            ctx.violation("equality", f"after editing a member value of x in place, x == y is {x == y} and repr(x) is {repr(x)} (was {rep_x}); both were built from equal options", W)
            return None
    return inst, exp_keys


def pair_case(ctx, cls, members, raw, o1, o2, kind):
    a = instance_case(ctx, cls, members, raw, o1)
    b = instance_case(ctx, cls, members, raw, o2)
    if a is None or b is None:
        return
    (i1, k1), (i2, k2) = a, b
    r1 = {k: canon(U.lookup(k, o1)) for k in k1}
    r2 = {k: canon(U.lookup(k, o2)) for k in k2}
    expected = r1 == r2
    got = i1 == i2
    ctx.count("pairs_compared")
    ctx.count(f"pairs_{kind}")
    if got != expected:
        ctx.violation("equality", f"C(o1) == C(o2) is {got} but the restrictions to the reported keys are {'equal' if expected else 'different'}: {r1} / {r2}",
                      {"members": {k: list(v) for k, v in members.items()}, "options": o1, "options2": o2, "pair_kind": kind})
        return
    if o1 != o2:
        ctx.nontrivial(spec_hash([sorted(members.items()), o1, o2]))
        ctx.sample({"members": {k: list(v) for k, v in members.items()}, "o1": o1, "o2": o2, "equal": got}, limit=3)


def reordered(o):
    """The same dictionary with the entries of every mapping (top level and nested sections) in reverse order."""
    if isinstance(o, dict):
        return {k: reordered(o[k]) for k in reversed(list(o))}
    if isinstance(o, list):
        return [reordered(x) for x in o]
    return copy.deepcopy(o)


def run(ctx, only=None):
    n = ctx.n(500, 10000)
    for i in range(n) if only is None else [only]:
        ctx.current_case = i
        r = case_rng(ctx, i)
        cls, members, raw = make_class(r)
        relevant = sorted({k for _, ks in members.values() for k in ks})
        for _ in range(6):
            o1 = gen_options(r, relevant)
            # differ only in an irrelevant key
            irrelevant = [k for k in FLAT + DOTTED + ["N1", "N2"] if k not in relevant]
            if irrelevant:
                k = r.choice(irrelevant)
                o2 = U.set_path(o1, k, "zz") if r.random() < 0.7 or not U.present(k, o1) else U.del_path(o1, k)
                pair_case(ctx, cls, members, raw, o1, o2, "differing_only_in_irrelevant_key")
            # differ only in a relevant key (dotted ones in particular)
            dotted_rel = [k for k in relevant if "." in k]
            if dotted_rel:
                k = r.choice(dotted_rel)
                o2 = U.set_path(o1, k, "changed")
                pair_case(ctx, cls, members, raw, o1, o2, "differing_only_in_relevant_dotted_key")
            flat_rel = [k for k in relevant if "." not in k and k not in ("S", "T")]
            for k in [k for k in relevant if k in ("S", "T")]:
                # (a scalar where a section is expected is the recorded C04 finding: sections are replaced by sections)
                pair_case(ctx, cls, members, raw, o1, U.set_path(o1, k, {"X": "changed", "Z": 1}), "differing_only_in_relevant_flat_key")
            if flat_rel:
                k = r.choice(flat_rel)
                pair_case(ctx, cls, members, raw, o1, U.set_path(o1, k, "changed"), "differing_only_in_relevant_flat_key")
            pair_case(ctx, cls, members, raw, o1, copy.deepcopy(o1), "identical")
            pair_case(ctx, cls, members, raw, o1, reordered(o1), "same_options_entries_reordered")
            # same present keys, a value that changes which keys are read (dispatch / templated value)
            if U.present("D", o1):
                o2 = dict(copy.deepcopy(o1), D="none" if o1["D"] == "alt" else "alt")
                pair_case(ctx, cls, members, raw, o1, o2, "same_keys_present_other_dispatch_value")
                o3 = copy.deepcopy(o2)
                for k in DOTTED:
                    if U.present(k, o3):
                        o3 = U.set_path(o3, k, "changed-after-dispatch-flip")
                pair_case(ctx, cls, members, raw, o2, o3, "same_keys_present_other_dispatch_value")
            pair_case(ctx, cls, members, raw, o1, gen_options(r, relevant), "random")


def replay(ctx, rep):
    # classes are regenerated from the seeded generator: the witness names shard, seed and case index
    w = rep["witness"]
    ctx.shard, ctx.shards = w.get("shard", 0), w.get("shards", 1)
    run(ctx, only=w.get("case", 0))
