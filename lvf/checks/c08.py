"""C08 — pre-set options override, defaults yield, sections merge; inputs never mutated.

Real-vs-real oracle: an expression wrapped with forced / default options, a
dataset declared with options= / default_options=, and with_options /
with_default_options derivatives are compared with the *unwrapped* expression
evaluated under the independently overlaid dictionary (lvf.universe.overlay).
Snapshot monitor: structure and identity of every caller-owned dictionary.
"""
import copy
import itertools

from .. import boot  # noqa: F401
import labrea.cache

from .. import universe as U
from ..build import build
from ..cases import case_rng
from ..gen import Gen, spec_hash
from ..outcome import observe, short

PROPERTY = "C08"
LEVEL = "exploration"
RULE = (
    "case = (X, wrapper stack or dataset pre-sets or derivation chain, o) with P, D, o drawn from a nested key "
    "universe overlapping inside sections; wrapped real evaluation (uncached, and on a long-lived instance "
    "interleaved with the base dataset) must equal the unwrapped real evaluation under the independently "
    "overlaid dictionary; validate verdicts must agree; deep snapshots (structure + container identity) of o, "
    "P, D and Dataset.options/default_options must be unchanged after evaluate/validate/keys/explain. "
    "distinct = sha1(case); non-trivial = the overlay differs from o on a key X reads (wrapped outcome != X(o))."
)
ASSUMPTIONS = ["overlay semantics re-implemented independently of confectioner.mix (sections merged key by key, lists and scalars replaced)"]
FLOORS = {"wrapper_cases": (1500, 40000), "dataset_preset_cases": (800, 20000), "derivative_cases": (800, 20000),
          "snapshots_checked": (8000, 200000), "overlay_mattered": (500, 10000), "inplace_history_steps": (3000, 80000), "prefix_named_key_steps": (190, 190), "map_overlay_cases": (800, 20000), "map_overlay_multi": (250, 6000), "scalar_between_sections_cases": (190, 190)}
SHARDS_QUICK = 4


def idmap(x, path="", out=None):
    out = {} if out is None else out
    if isinstance(x, dict):
        out[path] = id(x)
        for k, v in x.items():
            idmap(v, f"{path}/{k}", out)
    elif isinstance(x, list):
        out[path] = id(x)
        for i, v in enumerate(x):
            idmap(v, f"{path}/{i}", out)
    return out


class Snapshots:
    def __init__(self, ctx, G, o):
        self.ctx = ctx
        self.items = [("options", o)] + [(f"preset{i}", live) for i, (live, _) in enumerate(G.presets)]
        for did, obj in list(G.ds_objs.items()) + [(f"derived{i}", d) for i, d in enumerate(G.derived.values())]:
            self.items.append((f"ds{did}.options", obj.options))
            self.items.append((f"ds{did}.default_options", obj.default_options))
        self.before = [(copy.deepcopy(x), idmap(x)) for _, x in self.items]

    def check(self):
        self.ctx.count("snapshots_checked", len(self.items))
        for (name, x), (snap, ids) in zip(self.items, self.before):
            if x != snap:
                return f"{name} changed: {short(snap)} -> {short(x)}"
            if idmap(x) != ids:
                return f"{name}: nested containers were replaced (identity changed)"
        return None


def outcomes(ctx, G, obj, o, W, ops=("evaluate", "validate", "keys", "explain")):
    """Run the four operations with snapshots around each; return (evaluate outcome, validate ok-bit)."""
    res = {}
    for op in ops:
        snap = Snapshots(ctx, G, o)
        with labrea.cache.disabled():
            res[op] = observe(getattr(obj, op), o)
        ctx.evaluations += 1
        bad = snap.check()
        if bad:
            ctx.violation("input-mutated", f"{op}(): {bad}", {**W, "op": op})
            return None
    return res


def stack_options(wrappers, o):
    for P, force in wrappers:
        o = U.overlay(o, P) if force else U.overlay(P, o)
    return o


def gen_x(r, depth=2):
    g = Gen(r, max_depth=depth, features={"templates": True, "preset_templates": False})
    prog = g.make(n_datasets=r.choice([0, 1, 2, 3]), root_depth=r.choice([0, 1, depth]))
    return g, prog


def wrapper_case(ctx, r):
    g, prog = gen_x(r)
    X = prog["root"]
    wrappers = [(g.preset(), r.random() < 0.5) for _ in range(r.choice([1, 1, 2, 3]))]
    W = X
    for P, force in reversed(wrappers):
        W = {"k": "with", "spec": W, "P": P, "force": force}
    wprog = {"datasets": prog["datasets"], "root": W}
    o = U.random_options(r, templated=0.1)
    wrapper_compare(ctx, prog, wrappers, o)


def wrapper_compare(ctx, prog, wrappers, o):
    W = prog["root"]
    for P, force in reversed(wrappers):
        W = {"k": "with", "spec": W, "P": P, "force": force}
    wprog = {"datasets": prog["datasets"], "root": W}
    o2 = stack_options(wrappers, o)
    # (user bodies edit their own arguments in place: every evaluation must have handed them private copies)
    Gw, Gx = build(wprog, mutate_args=True), build(prog, mutate_args=True)
    wit = {"kind": "wrapper", "program": prog, "wrappers": wrappers, "options": o, "overlaid": o2}
    a = outcomes(ctx, Gw, Gw.root, o, wit)
    if a is None:
        return
    b = outcomes(ctx, Gx, Gx.root, o2, wit, ops=("evaluate", "validate"))
    if b is None:
        return
    ctx.count("wrapper_cases")
    compare(ctx, a, b, wit, Gx, o)


def compare(ctx, a, b, wit, Gx, o):
    ea, eb = a["evaluate"], b["evaluate"]
    if ea[0] != eb[0] or (ea[0] == "ok" and ea[1] != eb[1]):
        ctx.violation("wrapped-vs-overlaid", f"wrapped evaluates to {short(ea)} but X under the overlaid dictionary gives {short(eb)}",
                      {**wit, "real": repr(ea), "ref": repr(eb)})
        return False
    if (a["validate"][0] == "ok") != (b["validate"][0] == "ok"):
        ctx.violation("wrapped-validate-vs-overlaid", f"validate: wrapped {short(a['validate'])} vs overlaid {short(b['validate'])}", wit)
        return False
    with labrea.cache.disabled():
        plain = observe(Gx.root.evaluate, copy.deepcopy(o))
    if plain != ea:
        ctx.count("overlay_mattered")
        ctx.nontrivial(spec_hash(wit))
        ctx.sample({k: wit[k] for k in wit if k != "program"} | {"outcome": short(ea, 120)}, limit=3)
    return True


def dataset_preset_case(ctx, r):
    """options= / default_options= of the decorator vs the same dataset without them."""
    g, prog = gen_x(r)
    if not prog["datasets"]:
        g.dataset(1)
    did = r.choice(list(prog["datasets"]))
    d = prog["datasets"][did]
    d["options"] = g.preset()
    d["default_options"] = g.preset()
    if r.random() < 0.5:
        d["callback"] = "c1"
    if r.random() < 0.5:
        d["effects"] = ["e"]
    prog["root"] = {"k": "ds", "id": did}
    bare = copy.deepcopy(prog)
    P, D = bare["datasets"][did].pop("options"), bare["datasets"][did].pop("default_options")
    o = U.random_options(r, templated=0.1)
    preset_compare(ctx, prog, did, o)


def preset_compare(ctx, prog, did, o):
    bare = copy.deepcopy(prog)
    P, D = bare["datasets"][did].pop("options"), bare["datasets"][did].pop("default_options")
    o2 = U.overlay(U.overlay(D, o), P)
    Gw, Gx = build(prog, mutate_args=True), build(bare, mutate_args=True)
    wit = {"kind": "dataset-presets", "program": prog, "dataset": did, "options": o, "overlaid": o2}
    a = outcomes(ctx, Gw, Gw.root, o, wit)
    if a is None:
        return
    b = outcomes(ctx, Gx, Gx.root, o2, wit, ops=("evaluate", "validate"))
    if b is None:
        return
    ctx.count("dataset_preset_cases")
    compare(ctx, a, b, wit, Gx, o)


def derivative_case(ctx, r):
    """with_options / with_default_options chains on a dataset with callback, effects, dispatch, shared cache."""
    g, prog = gen_x(r)
    did = g.dataset(1)
    d = prog["datasets"][did]
    if r.random() < 0.6:
        d["callback"] = r.choice(["c1", "c2"])
    if r.random() < 0.5:
        d["effects"] = ["e"]
    chain = [[r.choice(["P", "D"]), g.preset()] for _ in range(r.choice([1, 1, 2, 3]))]
    if r.random() < 0.4:
        # two derivations of the same kind touching different keys of ONE section (must merge, not replace)
        which = r.choice(["P", "D"])
        chain += [[which, {"S": {"X": r.choice(U.SCALARS)}}], [which, {"S": {"Y": r.choice(U.SCALARS)}}]]
        r.shuffle(chain)
    der = {"k": "ds", "id": did, "chain": chain}
    base = {"k": "ds", "id": did}
    prog["root"] = der
    hist = U.history(r, 4, None, templated=0.1)
    derivative_compare(ctx, prog, did, chain, hist, r.random() < 0.5)


def _fallback_mechanism(ctx, prog, did, chain, hist, flip):
    """The recorded fall-back finding (a skipped alternative that fails for a PRESENT key and cannot be explain()ed leaves
    that key out of the key set, so base and derivative share a store entry): attributed only if an explain() raised while
    a key set was computed in this history AND the violation disappears under the conservative neutralisation."""
    if getattr(ctx, "scratch", False):
        return None
    from labrea.types import ExplainRequest

    from ..findings import classify_fallback, explain_raised
    from ..tap import Tap
    from ..verdict import Ctx

    raised = False
    G = build(prog)
    for o in hist:
        for obj in (G.root, G.expr({"k": "ds", "id": did})):
            with Tap(types=[ExplainRequest]) as t:
                observe(obj.evaluate, copy.deepcopy(o))
            raised = raised or explain_raised(t.events)
    if not raised:
        return None

    def rerun():
        sc = Ctx(ctx.prop, ctx.tier, ctx.seed)
        sc.scratch = True
        derivative_compare(sc, prog, did, chain, hist, flip)
        return len(sc.violations)

    return classify_fallback(rerun)


def derivative_compare(ctx, prog, did, chain, hist, flip):
    base = {"k": "ds", "id": did}
    G = build(prog)
    base_obj = G.expr(base)
    bare = copy.deepcopy(prog)
    bd = bare["datasets"][did]
    P = bd.pop("options", None) or {}
    D = bd.pop("default_options", None) or {}
    for which, opts in chain:
        if which == "P":
            P = U.overlay(P, opts)
        else:
            D = U.overlay(D, opts)
    bare["root"] = base
    for step, o in enumerate(hist):
        o2 = U.overlay(U.overlay(D, o), P)
        wit = {"kind": "derivative", "program": prog, "dataset": did, "chain": chain, "flip": flip, "history": hist[: step + 1], "options": o, "overlaid": o2}
        # long-lived instance: derivative and base share overloads, effects and cache; interleave them
        order = [("derived", G.root), ("base", base_obj)]
        if flip:
            order.reverse()
        warm = {}
        for name, obj in order:
            snap = Snapshots(ctx, G, o)
            warm[name] = observe(obj.evaluate, o)
            ctx.evaluations += 1
            bad = snap.check()
            if bad:
                ctx.violation("input-mutated", f"evaluate() on {name}: {bad}", wit)
                return
        Gx = build(bare)
        with labrea.cache.disabled():
            exp_der = observe(Gx.root.evaluate, copy.deepcopy(o2))
        a = outcomes(ctx, G, G.root, o, wit, ops=("validate", "keys", "explain"))
        if a is None:
            return
        ctx.count("derivative_cases")
        ea = warm["derived"]
        if ea[0] != exp_der[0] or (ea[0] == "ok" and ea[1] != exp_der[1]):
            ctx.violation("derivative-vs-overlaid", f"derived dataset gives {short(ea)} but the dataset under the overlaid dictionary gives {short(exp_der)}",
                          {**wit, "real": repr(ea), "ref": repr(exp_der), "mechanism": _fallback_mechanism(ctx, prog, did, chain, hist[: step + 1], flip)})
            return
        # the base dataset must be unaffected by the derivative sharing its cache
        bprog = copy.deepcopy(prog)
        bprog["root"] = base
        with labrea.cache.disabled():
            exp_base = observe(build(bprog).root.evaluate, copy.deepcopy(o))
        eb = warm["base"]
        if eb[0] != exp_base[0] or (eb[0] == "ok" and eb[1] != exp_base[1]):
            ctx.violation("base-poisoned-by-derivative", f"base dataset gives {short(eb)} after its derivative ran, alone it gives {short(exp_base)}",
                          {**wit, "real": repr(eb), "ref": repr(exp_base), "mechanism": _fallback_mechanism(ctx, prog, did, chain, hist[: step + 1], flip)})
            return
        if ea != eb:
            ctx.count("overlay_mattered")
            ctx.nontrivial(spec_hash(wit))


def inplace_history_case(ctx, r):
    """One long-lived wrapper, ONE caller dictionary object edited in place between calls: every call must see
    the dictionary's current content (evaluate / validate / keys interleaved)."""
    g, prog = gen_x(r, depth=1)
    wrappers = [(g.preset(), r.random() < 0.5) for _ in range(r.choice([1, 2, 3]))]
    W = prog["root"]
    for P, force in reversed(wrappers):
        W = {"k": "with", "spec": W, "P": P, "force": force}
    wprog = {"datasets": prog["datasets"], "root": W}
    G = build(wprog)
    o = U.random_options(r, templated=0.0)
    edits = []
    for step in range(5):
        op = r.choice(["evaluate", "evaluate", "validate", "keys"])
        with labrea.cache.disabled():
            got = observe(getattr(G.root, op), o)  # the SAME dict object every time
            exp = observe(getattr(build(wprog).root, op), copy.deepcopy(o))
        ctx.evaluations += 2
        ctx.count("inplace_history_steps")
        if got[0] != exp[0] or (got[0] == "ok" and got[1] != exp[1]):
            ctx.violation("stale-view-of-caller-dictionary", f"step {step} {op}(): long-lived wrapper gives {short(got)} for the caller's dictionary after in-place edits "
                          f"{edits}, a fresh wrapper on a copy gives {short(exp)}", {"kind": "inplace", "program": prog, "wrappers": wrappers, "options": copy.deepcopy(o), "edits": edits})
            return
        # edit the caller's own dictionary in place (top-level key or inside a section)
        k = r.choice(["A", "B", "C", "D", "S.X", "S.Y", "T.X"])
        v = r.choice(U.SCALARS)
        cur = o
        parts = k.split(".")
        for part in parts[:-1]:
            if not isinstance(cur.get(part), dict):
                cur[part] = {}
            cur = cur[part]
        if r.random() < 0.25 and parts[-1] in cur:
            del cur[parts[-1]]
            edits.append(["del", k])
        else:
            cur[parts[-1]] = v
            edits.append(["set", k, v])
        if step:
            ctx.nontrivial(spec_hash(["inplace", prog, wrappers, edits]))


def map_overlay_case(ctx, r):
    """A Map is the pre-set-options wrapper applied once per combination: every element is X evaluated under the
    caller's dictionary overlaid by THAT combination's assignment (sections merged key by key, also when several
    mapped keys live in one section) - and the caller's dictionary is left alone."""
    g, prog = gen_x(r, depth=1)
    keys = r.sample(["A", "B", "S.X", "S.Y", "T.X", "S.Z"], r.choice([1, 2, 2, 3]))
    lists = [[r.choice(U.SCALARS) for _ in range(r.choice([1, 2, 3]))] for _ in keys]
    mprog = {"datasets": prog["datasets"], "root": {"k": "map", "body": prog["root"], "iters": [[k, {"k": "const", "v": l}] for k, l in zip(keys, lists)]}}
    o = U.random_options(r, templated=0.0)
    o_in = copy.deepcopy(o)
    G = build(mprog)
    with labrea.cache.disabled():
        got = observe(lambda: [(a, v) for a, v in G.root.evaluate(o)])
    ctx.evaluations += 1
    ctx.count("map_overlay_cases")
    W = {"kind": "map-overlay", "program": mprog, "options": o}
    if o != o_in:
        ctx.violation("input-mutated", "Map.evaluate changed the caller's dictionary", W)
        return
    expected = []
    for combo in itertools.product(*lists):
        oo = copy.deepcopy(o)
        for k, v in zip(keys, combo):
            oo = U.overlay(oo, U._nest(k, v)) if "." in k else {**oo, k: v}
        with labrea.cache.disabled():
            ev = observe(build(prog).root.evaluate, oo)
        if ev[0] != "ok":
            expected = None  # (a failing element fails the whole Map when it is consumed)
            break
        expected.append((dict(zip(keys, combo)), ev[1]))
    if expected is None:
        if got[0] == "ok":
            ctx.violation("map-vs-overlaid", f"an element fails under its overlaid dictionary but the Map evaluated to {short(got)}", W)
        return
    from ..outcome import canon

    if got[0] != "ok" or got[1] != ("L", tuple(("T", (canon(a), v)) for a, v in expected)):
        ctx.violation("map-vs-overlaid", f"Map over {keys} gives {short(got)}; X under the overlaid dictionaries gives {short(expected)}", W)
        return
    if len(expected) > 1:
        ctx.count("map_overlay_multi")
        ctx.nontrivial(spec_hash(["map-overlay", mprog, o]))


def scalar_between_sections(ctx):
    """Nested wrappers of one kind where a MIDDLE layer holds a scalar (or null, or a list) under a name that its
    neighbours hold as a section: overlaying is applied layer by layer - a scalar replaces a section, a later section
    replaces the scalar - so the layers cannot be merged into one dictionary beforehand."""
    X = {"k": "tuple", "items": [{"k": "opt", "key": "S", "dk": "const", "dv": {"none": 0}}, {"k": "opt", "key": "A", "dk": "const", "dv": 0}]}
    prog = {"datasets": {}, "root": X}
    for force in (True, False):
        for middle in (0, None, "", [1], 1.5, "txt"):
            for layers in ([{"S": {"X": 1}}, {"S": middle}], [{"S": middle}, {"S": {"X": 1}}], [{"S": {"X": 1}}, {"S": middle}, {"S": {"Z": 3}}],
                           [{"S": {"Z": 3}, "A": 1}, {"S": middle}, {"S": {"X": 1}}]):
                wrappers = [(copy.deepcopy(P), force) for P in layers]
                for o in ({"S": {"X": 9, "Y": 9, "Z": 9}}, {}, {"S": 5, "A": 2}, {"S": {"Y": 1}}):
                    n0 = ctx.counters.get("wrapper_cases", 0)
                    wrapper_compare(ctx, prog, wrappers, copy.deepcopy(o))
                    ctx.count("scalar_between_sections_cases", ctx.counters.get("wrapper_cases", 0) - n0)


def prefix_named_keys(ctx):
    """Derivatives of ONE dataset share its store; what keeps their values apart is the merged dictionary alone.
    Option names that are string prefixes of each other (A / AB, S.X / S.XL) are the adversarial alphabet for that."""
    O = lambda key, dv: {"k": "opt", "key": key, "dk": "const", "dv": dv}  # noqa: E731
    for callback in (None, "c1"):
        d = {"args": [["a", O("A", 0)], ["ab", O("AB", 0)], ["x", O("S.X", 0)], ["xl", O("S.XL", "m")], ["xy", O("S.XY", None)]]}
        if callback:
            d["callback"] = callback
        for chain in ([["P", {"S": {"XL": "km"}}]], [["D", {"S": {"XL": "km"}}]], [["P", {"AB": 5}]], [["D", {"AB": 5}]],
                      [["D", {"S": {"XL": "ft"}}], ["P", {"S": {"XY": 1}}]], [["P", {"AB": 1}], ["P", {"S": {"XL": "mi"}}], ["D", {"A": 7}]]):
            prog = {"datasets": {"1": copy.deepcopy(d)}, "root": {"k": "ds", "id": "1", "chain": chain}}
            hist = [{"S": {"X": 2}}, {"S": {"X": 2, "XL": "yd"}}, {"A": 1}, {"A": 1, "AB": 7}, {"A": 1, "AB": 5, "S": {"X": 2, "XL": "km"}},
                    {"S": {"X": 2, "XY": 0}}, {"S": {"X": 2}}, {}]
            for flip in (False, True):
                n0 = ctx.counters.get("derivative_cases", 0)
                derivative_compare(ctx, prog, "1", chain, hist, flip)
                ctx.count("prefix_named_key_steps", ctx.counters.get("derivative_cases", 0) - n0)


def run(ctx):
    if ctx.shard == 0:
        prefix_named_keys(ctx)
    if ctx.shard == 1 % ctx.shards:
        scalar_between_sections(ctx)
    n = ctx.n(900, 24000)
    for i in range(n):
        r = case_rng(ctx, i)
        wrapper_case(ctx, r)
        wrapper_case(ctx, r)
        dataset_preset_case(ctx, r)
        derivative_case(ctx, r)
        inplace_history_case(ctx, r)
        map_overlay_case(ctx, r)


def replay(ctx, rep):
    w = rep["witness"]
    if w["kind"] == "wrapper":
        wrapper_compare(ctx, w["program"], [tuple(x) for x in w["wrappers"]], w["options"])
    elif w["kind"] == "dataset-presets":
        preset_compare(ctx, w["program"], w["dataset"], w["options"])
    elif w["kind"] == "inplace":
        run(ctx)
    else:
        derivative_compare(ctx, w["program"], w["dataset"], w["chain"], w["history"], w.get("flip", False))
