"""C06 — laziness: only bodies on the selected path run, and only when evaluated.

Monitor: the ordered execution log written by every harness-supplied callable;
oracle: the set / order the eager, memo-free reference interpreter needs.
"""
import copy

from .. import boot  # noqa: F401
from labrea import Option, abstractdataset, dataset, datasetclass, implements, interface, pipeline_step
from labrea.dataset import Dataset
import labrea.cache

from .. import directed
from .. import universe as U
from ..build import build
from ..cases import case_rng, program_for
from ..gen import mentioned_keys, spec_hash
from ..outcome import observe, short
from ..probes import Log
from ..ref import Ref, walk
from ..tap import Tap

PROPERTY = "C06"
LEVEL = "exploration"
RULE = (
    "(a) construction: building every generated program (decorators, overload/register, with_options derivatives, "
    "apply/>>, +, switch/case/coalesce/Map/collections), taking repr() of every node, defining interfaces, "
    "implementations and dataset classes from probe bodies must leave the execution log empty; (b) evaluation on a cold "
    "instance: the bodies that ran are a subset of what the eager memo-free reference runs for the same options (so no "
    "unselected switch/case/overload branch, no coalesce member after the first success, no default of a present "
    "option); (c) inside every dataset evaluation window (request tap) no other body runs after that dataset's own "
    "body; the source of >> runs before the parameters and the function of the step applied to it; (d) hostile "
    "history on ONE long-lived instance (same dictionary object edited in place, typed twins, fail-then-complete; "
    "caching off): at every step value and rejected-alternative bodies against the reference.  distinct = "
    "sha1(program, options); non-trivial = the reference skips at least one body that exists in the program."
)
ASSUMPTIONS = ["bodies whose value is needed to choose a branch (dispatch, bind source, case dispatch, Map iterables) count as needed"]
FLOORS = {"constructions_checked": (1500, 30000), "evaluations_checked": (4000, 80000), "skipped_bodies_confirmed": (1500, 30000),
          "windows_checked": (2000, 20000), "apply_order_checked": (100, 1000), "definition_time_checks": (60, 600), "namespace_default_runs_at_evaluation": (60, 600), "late_dispatch_evaluations": (400, 4000), "selected_step_orders": (100, 1000), "selected_branch_failures": (300, 3000), "dataset_class_instantiations": (100, 1000), "dataset_class_with_overridden_member": (50, 500)}
SHARDS_QUICK = 4


def construction_case(ctx, program, tag):
    G = build(program)
    for spec, obj in G.nodes:
        repr(obj)
    for obj in list(G.ds_objs.values()) + list(G.derived.values()):
        repr(obj)
        obj.default, obj.is_abstract
    ctx.count("constructions_checked")
    if G.log.events:
        ctx.violation("body-ran-at-construction", f"building / repr ran {[(e[1], e[2]) for e in G.log.events][:5]}", {"program": program, "source": tag})
        return None
    return G


def definition_time(ctx, r):
    """interfaces, implementations, dataset classes, pipelines: definitions never run a body."""
    log = Log()

    def body(name):
        def f():
            log.hit("body", name)
            return name

        f.__name__ = name
        return f

    def body_a(a=Option("A", 1)):
        log.hit("body", "with-arg")
        return a

    ns = {"__annotations__": {"m_abs": str}, "m_def": dataset(body("m_def")), "m_fn": staticmethod(body("m_fn")), "m_val": Option("B", 2),
          "m_arg": dataset(body_a)}
    Iface = interface("D")(type("Iface", (), ns))
    impl_ns = {"m_abs": staticmethod(body("impl_abs")), "m_def": dataset(body("impl_def")), "m_val": 5}
    Iface.implementation(["x", "y"])(type("Impl", (), impl_ns))
    implements(Iface, alias="z")(type("Impl2", (), {"m_abs": Option("C", 3)}))
    try:
        Iface.implementation("bad")(type("Bad", (), {"m_def": dataset(body("bad_def"))}))  # omits the abstract member
    except TypeError:
        pass

    ds = dataset(body("dc_member"))
    DC = datasetclass(type("DC", (), {"__annotations__": {"a": str, "b": int}, "a": ds, "b": Option("B", 2)}))
    repr(DC), repr(Iface), repr(Iface.m_def)

    @pipeline_step
    def st(x, p=ds):
        log.hit("step", "st")
        return (x, p)

    pipe = st + st + (lambda x: log.hit("fn", "lam") or x)
    expr = ds >> pipe
    ab = abstractdataset(body("abstract"), dispatch="D")
    ab.register("k", ds)
    ab.overload("j")(body("ov"))
    ds.with_options({"A": 1}).with_default_options({"B": 2})
    repr(pipe), repr(expr), list(pipe)
    # option namespaces whose members default to body-carrying evaluatables (dataset, chained dataset, factory),
    # nested and inherited namespaces; reading their documentation
    ns_root, ns_dep = dataset(body("ns_root")), dataset(body_a)
    sub = type("IO", (), {"TARGET": Option("TARGET", default=ns_root), "DEPTH": Option("DEPTH", default_factory=body("ns_factory_sub"))})
    pre = Option.namespace("PRE")(type("PRE", (), {"Q": Option.auto(ns_dep, doc="inherited"), "__annotations__": {}}))
    members = {"ROOT": ns_root, "WORKERS": Option.auto(ns_dep, doc="workers"), "COUNTER": Option("COUNTER", default_factory=body("ns_factory")),
               "__annotations__": {"NAME": str}, "IO": sub, "OLD": pre, "CHAIN": Option("CHAIN", default=Option("X", default=ns_root) >> (lambda v: log.hit("fn", "ns_lam") or v))}
    order = sorted(members)
    r.shuffle(order)
    APP = Option.namespace(r.choice(["APP", "A-PP"]))(type("APP", (), {k: members[k] for k in order}))
    repr(APP), APP.__doc__, repr(APP.ROOT), APP.IO.__doc__, repr(APP.IO.TARGET), APP.WORKERS.__doc__, getattr(APP.OLD, "__doc__", None)
    Option("K", default=ns_root), Option("K", default_factory=body("opt_factory")), Option.auto(ns_dep)
    ctx.count("definition_time_checks")
    if log.events:
        ctx.violation("body-ran-at-definition", f"defining interfaces / implementations / dataset classes / pipelines ran {[(e[1], e[2]) for e in log.events][:5]}", {})
        return
    # and they do run when evaluated (the probes are live)
    Iface.m_def({"D": "x"}), DC({"B": 1}), expr({})
    if not log.events:
        ctx.inconclusive.append("definition-time probes never fire")
    # a namespace member's default runs at evaluation, and only while its key is absent
    mark = log.mark()
    key = APP._key
    present = {key: {"ROOT": "/x", "WORKERS": 2, "COUNTER": 7, "CHAIN": 1, "IO": {"TARGET": "/t", "DEPTH": 3}, "OLD": {"Q": 1}}}
    got = (APP.ROOT(present), APP.WORKERS(present), APP.COUNTER(present), APP.IO.TARGET(present), APP.IO.DEPTH(present), APP.CHAIN(present))
    ran = log.since(mark, ("body", "factory", "fn"))
    ctx.evaluations += 6
    if got != ("/x", 2, 7, "/t", 3, 1) or ran:
        ctx.violation("namespace-default-ran-with-key-present", f"members gave {got}, ran {[(e[1], e[2]) for e in ran][:5]} although every key is present", {})
        return
    mark = log.mark()
    v = APP.ROOT({})
    ran = [e[2] for e in log.since(mark, ("body",))]
    ctx.count("namespace_default_runs_at_evaluation")
    if v != "ns_root" or ran != ["ns_root"]:
        ctx.violation("namespace-default-not-run-at-evaluation", f"first evaluation of a namespace member without its key gave {v!r} and ran {ran} (its default dataset must run now, once)", {})


def late_dispatch(ctx, r, case):
    """A dataset that is used first (explain / keys / validate / evaluate) and only afterwards receives its dispatch
    (set_dispatch, or adoption as an interface member) and its overloads: an evaluation runs the body of the selected
    implementation only - never the default's when an overload is selected, never an overload's when it is not."""
    log = Log()

    def mk(name, key):
        def f(v=Option(key, 0)):
            log.hit("body", name)
            return (name, v)

        f.__name__ = name
        return f

    first_use = r.choice(["none", "explain", "keys", "validate", "evaluate"])
    how = r.choice(["set_dispatch", "interface"])
    kind = r.choice(["memory", "nocache"])
    d = (dataset.nocache if kind == "nocache" else dataset)(mk("default", "A"))
    if first_use != "none":
        getattr(d, first_use)({"A": 1, "D": "x"})
    if how == "set_dispatch":
        d.set_dispatch(r.choice(["D", Option("D")]))
        d.overload("x")(mk("ov_x", "B"))
        d.register("y", dataset(mk("ov_y", "C")))
        target = d
    else:
        Iface = interface("D")(type("LateIface", (), {"member": d}))
        Iface.implementation("x")(type("ImplX", (), {"member": dataset(mk("ov_x", "B"))}))
        Iface.implementation("y")(type("ImplY", (), {"member": dataset(mk("ov_y", "C"))}))
        target = Iface.member
    W = {"family": "late-dispatch", "case": case, "shard": ctx.shard, "shards": ctx.shards, "first_use": first_use, "how": how, "cache": kind}
    for step in range(4):
        sel = r.choice(["x", "y", "unregistered", None])
        o = {"A": 10 + step, "B": 20 + step, "C": 30 + step}
        if sel is not None:
            o["D"] = sel
        want = {"x": "ov_x", "y": "ov_y"}.get(sel, "default")
        mark = log.mark()
        got = observe(target.evaluate, dict(o))
        ran = [e[2] for e in log.since(mark, ("body",))]
        ctx.evaluations += 1
        ctx.count("late_dispatch_evaluations")
        if got[0] != "ok" or got[1][1][0] != ("s", want) or ran != [want]:
            ctx.violation("unselected-implementation-ran", f"dataset first used by {first_use}(), dispatch given later by {how}: with D={sel!r} the selected implementation is {want} "
                          f"but bodies {ran} ran and the value is {short(got)}", {**W, "options": o})
            return
    ctx.nontrivial(spec_hash(["late-dispatch", first_use, how, kind, case]))


def evaluation_case(ctx, program, o, tag):
    G = build(program)
    if G.log.events:
        return
    log = G.log
    windows = []  # (dataset id, start index, end index)

    def on_event(phase, kind, request, stack, result):
        if kind == "evaluate" and isinstance(request.evaluatable, Dataset):
            did = G.dataset_ids.get(id(request.evaluatable))
            if did is None:
                return
            if phase == "call":
                windows.append([did, log.mark(), None, request])
            else:
                for w in reversed(windows):
                    if w[3] is request and w[2] is None:
                        w[2] = log.mark()
                        break

    with Tap(on_event=on_event, keep=False):
        got = observe(G.root.evaluate, copy.deepcopy(o))
    ref = Ref(program)
    try:
        exp = ref.run(o)
    except RecursionError:
        return
    ctx.evaluations += 1
    ctx.count("evaluations_checked")
    real_bodies = [e[2] for e in log.events if e[1] == "body"]
    ref_bodies = [p for k, p, _ in ref.ran if k == "body"]
    W = {"program": program, "options": o, "source": tag, "real_log": [(e[1], e[2]) for e in log.events][:60], "ref_log": [(k, p) for k, p, _ in ref.ran][:60]}
    extra = sorted(set(real_bodies) - set(ref_bodies))
    # (a failing evaluation may have run selector bodies of later arguments while the cache key was computed,
    #  before the failing argument was reached: the subset relation is demanded for successful evaluations)
    sel = selector_datasets(program)
    # datasets that are reachable ONLY through alternatives the reference decided against (unselected switch /
    # case / overload branches, coalesce members after the first success, defaults of present options): their
    # bodies must not run at all, not even for computing a cache key
    avoid = {id(u) for u in ref.unselected}
    only_unselected = set()
    for u in ref.unselected:
        only_unselected |= ref.reachable_datasets(u)
    only_unselected -= ref.reachable_avoiding(program["root"], avoid)
    forbidden = [p for p in extra if p[2:].split(":")[0] in only_unselected]
    if forbidden and got[0] == "ok" and exp[0] == "ok":
        ctx.violation("unselected-alternative-ran", f"bodies {forbidden} belong to alternatives the evaluation decided against (coalesce member after the first success / "
                      f"unselected branch / default of a present option) yet they ran", W)
        return
    tolerated = [p for p in extra if p[2:].split(":")[0] in sel]
    if tolerated:
        # a selector body (dispatch / bind source / case dispatch / Map iterable) may run while the cache key of a
        # sub-evaluation is computed even if that sub-evaluation then fails and a default absorbs the failure
        ctx.count("selector_bodies_run_for_key_computation", len(tolerated))
    extra = [p for p in extra if p not in tolerated]
    if extra and got[0] == "ok" and exp[0] == "ok":
        ctx.violation("unneeded-body-ran", f"bodies {extra} ran but the eager reference never needs them for these options (outcome {short(got, 80)})", W)
        return
    # default factories: the factory of an option whose key was present, and factories that occur only inside
    # alternatives the reference decided against, must not run (a factory inside a selector may run while a cache
    # key is computed, like selector bodies)
    ran_fac = set(e[2] for e in log.events if e[1] == "factory")
    inside_unselected = set()
    for u in ref.unselected:
        for n in walk(u):
            if n.get("k") == "opt" and n.get("dk") == "factory":
                inside_unselected.add(f"fac{n['n']}" if "n" in n else f"fac:{n['key']}")
    elsewhere = set()

    def collect(spec):
        if id(spec) in avoid:
            return
        if spec.get("k") == "opt" and spec.get("dk") == "factory":
            elsewhere.add(f"fac{spec['n']}" if "n" in spec else f"fac:{spec['key']}")
        from ..ref import children

        for c in children(spec):
            collect(c)

    collect(program["root"])
    from ..ref import dataset_children

    for d in program["datasets"].values():
        for sp in dataset_children(d):
            collect(sp)
    # (a factory pid marked unused at one evaluation of its option may be needed at another: only pids that are
    #  never needed anywhere in the reference run are forbidden)
    needed_fac = set(p for k, p, _ in ref.ran if k == "factory")
    forbidden_fac = ((ref.unused_factories | (inside_unselected - elsewhere)) - needed_fac) & ran_fac
    if forbidden_fac and got[0] == "ok" and exp[0] == "ok":
        ctx.violation("unneeded-default-evaluated", f"default factories {sorted(forbidden_fac)} ran although their option's key was present / their alternative was not selected", W)
        return
    # every body pid that exists in the program but the reference skipped, and that indeed did not run
    all_pids = program_body_pids(program)
    skipped = all_pids - set(ref_bodies)
    ctx.count("skipped_bodies_confirmed", len(skipped - set(real_bodies)))
    # windows: inside a dataset's evaluation no other body runs after its own body
    for did, start, end, _ in windows:
        if end is None:
            continue
        ev = log.events[start:end]
        own = [i for i, e in enumerate(ev) if e[1] == "body" and e[2].startswith(f"ds{did.split('/')[0]}:")]
        if not own:
            continue
        ctx.count("windows_checked")
        # no dataset of the argument sub-tree has its FIRST run in this window after the dataset's own body
        # (later re-runs are legitimate: an uncached dispatch / bind source is re-evaluated when the cache key
        # is computed for the store)
        first_own = own[0]
        tag = ev[first_own][2].split(":", 1)[1]
        argsets = arg_datasets(program, did.split("/")[0], tag)
        firsts = {}
        for i, e in enumerate(ev):
            if e[1] == "body":
                firsts.setdefault(e[2].split(":")[0], i)
        late = [c for c in argsets if firsts.get(f"ds{c}", -1) > first_own]
        if late:
            ctx.violation("body-before-its-arguments", f"inside the evaluation of dataset {did} the argument datasets {late} first ran after its own body", W)
            return
    if skipped:
        ctx.nontrivial(spec_hash([program, o]))
        ctx.sample({"program": program, "options": o, "ran": real_bodies, "skipped": sorted(skipped)[:8]}, limit=3)


def selector_datasets(program):
    """Datasets whose value can be needed to choose a branch: reachable from a dispatch, a bind / case source,
    a switch dispatch or a Map iterable anywhere in the program."""
    r = Ref(program)
    out = set()

    def visit(spec):
        for n in walk(spec):
            k = n["k"]
            subs = []
            if k == "switch" and isinstance(n["disp"], dict):
                subs.append(n["disp"])
            elif k in ("bind",):
                subs.append(n["src"])
            elif k == "case":
                subs.append(n["disp"])
                from ..ref import cond_spec

                subs.extend(c for c in (cond_spec(n, i) for i in range(len(n["cases"]))) if c is not None)  # conditions choose the branch
            elif k == "map":
                subs.extend(i for _, i in n["iters"])
            for sp in subs:
                out.update(r.reachable_datasets(sp))

    visit(program["root"])
    from ..ref import dataset_children

    for d in program["datasets"].values():
        if isinstance(d.get("dispatch"), dict):
            out.update(r.reachable_datasets(d["dispatch"]))
        for sp in dataset_children(d):
            visit(sp)
    return out


def arg_datasets(program, did, tag):
    """Dataset ids syntactically reachable from the arguments of the implementation `tag` of dataset did."""
    from ..build import overload_tag

    d = program["datasets"][did]
    args = None
    if tag == "default":
        args = d.get("args", [])
    else:
        for alias, impl in d.get("overloads", []):
            if overload_tag(alias, impl) == tag:
                args = impl.get("args", [])
    out = set()
    r = Ref(program)
    for _, a in args or []:
        out |= r.reachable_datasets(a)
    out.discard(did)
    return out


def program_body_pids(program):
    from ..build import overload_tag

    out = set()
    for did, d in program["datasets"].items():
        if d.get("expr") is None and not d.get("abstract"):
            out.add(f"ds{did}:default")
        for alias, impl in d.get("overloads", []):
            if impl.get("ds") is None and impl.get("expr") is None:
                out.add(f"ds{did}:{overload_tag(alias, impl)}")
    return out


def apply_order(ctx, r):
    """The input of >> is produced before the parameters of the step and before the step runs."""
    program = {
        "datasets": {"1": {"args": [["a", {"k": "opt", "key": "A", "dk": "const", "dv": 0}]]}, "2": {"args": [["b", {"k": "opt", "key": "B", "dk": "const", "dv": 0}]]},
                     "3": {"args": []}},
        "root": {"k": "apply", "src": {"k": "apply", "src": {"k": "ds", "id": "1"}, "fn": {"name": "s1", "params": [["p0", {"k": "ds", "id": "2"}]], "n": 1}},
                 "fn": {"name": "s2", "params": [["p0", {"k": "ds", "id": "3"}]], "n": 2}},
    }
    G = build(program)
    o = {k: r.choice(U.SCALARS) for k in r.sample(["A", "B", "C", "N1"], r.choice([0, 1, 2, 3]))}
    G.root.evaluate(o)
    order = [e[2] for e in G.log.events if e[1] in ("body", "step")]
    ctx.count("apply_order_checked")
    ctx.evaluations += 1
    expected = ["ds1:default", "ds2:default", "st1", "ds3:default", "st2"]
    if order != expected:
        ctx.violation("apply-order", f">> ran {order}, expected source before parameters before step: {expected}", {"program": program, "options": o})


def selected_branch_fails(ctx, r, case):
    """The dispatch selects a registered branch and that branch FAILS (its body raises, or it needs an absent option):
    the evaluation fails - the default is an unselected alternative and its body never runs."""
    from labrea import switch

    log = Log()

    def mk(name, raises=False, needs=None):
        def f(a=Option(needs or "A", 0) if needs is None else Option(needs)):
            log.hit("body", name)
            if raises:
                raise ValueError(f"{name} fails")
            return name

        f.__name__ = name
        return f

    how = r.choice(["switch", "overload", "interface", "switch-of-options"])
    failure = r.choice(["raises", "missing-option"])
    cache = r.choice([dataset, dataset.nocache])
    fast = cache(mk("fast", raises=failure == "raises", needs=None if failure == "raises" else "NEEDED"))
    dflt = cache(mk("default"))
    if how == "switch":
        expr = switch(Option("D"), {"fast": fast}, dflt)
    elif how == "switch-of-options":
        expr = switch(Option("D"), {"fast": Option("NEEDED") if failure == "missing-option" else fast}, dflt)
    elif how == "overload":
        expr = cache(mk("default"), dispatch="D")
        expr.register("fast", fast)
    else:
        Iface = interface("D")(type("FailIface", (), {"member": dflt}))
        Iface.implementation("fast")(type("FailImpl", (), {"member": fast}))
        expr = Iface.member
    for o in ({"D": "fast", "A": 1}, {"D": "other", "A": 1}, {"D": "fast", "A": 2}):
        mark = log.mark()
        got = observe(expr.evaluate, dict(o))
        ran = [e[2] for e in log.since(mark, ("body",))]
        ctx.evaluations += 1
        ctx.count("selected_branch_failures")
        selected = o["D"] == "fast"
        if (selected and (got[0] != "err" or "default" in ran)) or (not selected and got != ("ok", ("s", "default"))):
            ctx.violation("unselected-alternative-ran", f"{how}, selected branch {failure}: with {o} bodies {ran} ran and the outcome is {short(got)} "
                          f"(a selected branch that fails must fail the evaluation; the default is not selected)", {"family": "selected-branch-fails", "case": case, "shard": ctx.shard, "shards": ctx.shards})
            return
    ctx.nontrivial(spec_hash(["selected-branch-fails", how, failure, case]))


def selected_step_order(ctx, r, case):
    """`source >> step` where the step itself is chosen by a dataset (switch / case / bind on a dataset), also as a
    dataset callback: the source is produced first, the selecting dataset afterwards, and when the source fails the
    selector is never needed."""
    from labrea import case as case_, switch

    log = Log()

    def mk(name, value, fail=False):
        def f(a=Option("A", 0)):
            log.hit("body", name)
            if fail:
                raise ValueError("source cannot be produced")
            return value

        f.__name__ = name
        return f

    kind = r.choice(["switch", "case", "bind"])
    fails = r.random() < 0.3
    as_callback = r.random() < 0.35 and not fails
    src = dataset.nocache(mk("source", 5, fail=fails))
    mode = dataset.nocache(mk("mode", "double"))
    double, negate = (lambda v: ("double", v)), (lambda v: ("negate", v))
    if kind == "switch":
        step = switch(mode, {"double": double, "negate": negate})
    elif kind == "case":
        step = case_(mode).when(lambda m: m == "double", double).otherwise(negate)
    else:
        step = mode.bind(lambda m: Option("Z", double if m == "double" else negate))
    if as_callback:
        expr = dataset.nocache(mk("source", 5), callback=step)
    else:
        expr = src >> step
    got = observe(expr.evaluate, {"A": 1})
    order = [e[2] for e in log.events]
    ctx.evaluations += 1
    ctx.count("selected_step_orders")
    want_order = ["source"] if fails else ["source", "mode"]
    ok_value = got[0] == "err" if fails else got == ("ok", ("T", (("s", "double"), ("i", 5))))
    if order != want_order or not ok_value:
        ctx.violation("apply-order", f"source >> step selected by a dataset ({kind}{', as callback' if as_callback else ''}{', failing source' if fails else ''}): bodies ran {order}, "
                      f"expected {want_order}; value {short(got)}", {"family": "selected-step", "case": case, "shard": ctx.shard, "shards": ctx.shards})
        return
    ctx.nontrivial(spec_hash(["selected-step", kind, fails, as_callback]))


def dataset_class_members(ctx, r, case):
    """Dataset classes with inheritance: a derived class that re-defines a member REPLACES it.  Instantiating the class
    (directly, or as the argument of a consumer) runs the body of the winning definition of each member, once, and
    never a shadowed one; validate / keys / explain of the class run nothing."""
    log = Log()

    def member(level, name, kind):
        if kind == "dataset":
            def f(a=Option("A", 0)):
                log.hit("body", f"{level}.{name}")
                return (level, name, a)

            f.__name__ = f"{level}_{name}"
            return dataset(f)
        if kind == "dataset-of-dataset":
            def g():
                log.hit("body", f"{level}.{name}.inner")
                return "inner"

            g.__name__ = f"{level}_{name}_inner"
            inner = dataset(g)

            def f(x=inner):
                log.hit("body", f"{level}.{name}")
                return (level, name, x)

            f.__name__ = f"{level}_{name}"
            return dataset(f)
        if kind == "option":
            return Option("B", f"{level}.{name}.dflt")
        return f"{level}.{name}.const"

    names = ["m0", "m1", "m2", "m3"]
    kinds = ["dataset", "dataset", "dataset-of-dataset", "option", "const"]
    winning = {}
    levels = []
    cls = None
    depth = r.choice([2, 2, 3])
    for li in range(depth):
        level = f"L{li}"
        defined = names[: r.choice([2, 3, 4])] if li == 0 else r.sample(names, r.choice([1, 2, 3]))
        ns = {"__annotations__": {}}
        for n in defined:
            k = r.choice(kinds)
            ns[n] = member(level, n, k)
            ns["__annotations__"][n] = object
            winning[n] = (level, k)
        plain = type(level, (cls,) if cls is not None else (), ns)
        cls = datasetclass(plain) if (li == depth - 1 or r.random() < 0.7) else plain
        levels.append((level, sorted(defined)))
    W = {"family": "dataset-class", "case": case, "shard": ctx.shard, "shards": ctx.shards, "levels": levels}
    if log.events:
        ctx.violation("body-ran-at-definition", f"defining dataset classes ran {[e[2] for e in log.events][:5]}", W)
        return
    expected = set()
    for n, (level, k) in winning.items():
        if k in ("dataset", "dataset-of-dataset"):
            expected.add(f"{level}.{n}")
        if k == "dataset-of-dataset":
            expected.add(f"{level}.{n}.inner")
    o = r.choice([{}, {"A": 1}, {"A": 2, "B": "b"}])
    for op in ("validate", "keys", "explain"):
        getattr(cls, op)(copy.deepcopy(o))
    if log.events:
        ctx.violation("body-ran-during-inspection", f"validate/keys/explain of a dataset class ran {[e[2] for e in log.events][:5]}", W)
        return
    route = r.choice(["call", "evaluate", "consumer"])
    mark = log.mark()
    if route == "call":
        cls(copy.deepcopy(o))
    elif route == "evaluate":
        cls.evaluate(copy.deepcopy(o))
    else:
        def consumer(c=cls):
            return c

        dataset(consumer)(copy.deepcopy(o))
    ran = [e[2] for e in log.since(mark, ("body",))]
    ctx.evaluations += 1
    ctx.count("dataset_class_instantiations")
    if len([n for _, ds_ in levels for n in ds_]) > len({n for _, ds_ in levels for n in ds_}):
        ctx.count("dataset_class_with_overridden_member")
    extra = [x for x in ran if x not in expected]
    missing = [x for x in expected if x not in ran]
    twice = sorted({x for x in ran if ran.count(x) > 1})
    if extra or missing or twice:
        ctx.violation("dataset-class-bodies", f"instantiating ({route}) a dataset class {levels} under {o}: bodies run {ran}; shadowed/unneeded {extra}, missing {missing}, repeated {twice}", {**W, "options": o, "ran": ran})
        return
    if len(ran) >= 1:
        ctx.nontrivial(spec_hash(["dataset-class", levels, sorted(winning.items()), o, route]))


def hostile_laziness(ctx, program, base, r, case, tag="random"):
    """ONE long-lived instance (caching off: only per-object memos, aliasing and leftover state can interfere) driven
    through a hostile history (lvf.hostile: the same dictionary object edited in place, typed twins, fail-then-complete):
    at every step no body may run that belongs only to alternatives the eager reference decides against for the
    dictionary as it is at that moment."""
    from .. import hostile
    G = build(program)
    if G.log.events:
        return
    keys = sorted(k for k in mentioned_keys(program) if k in U.READ_KEYS)
    trail = []
    for label, obj in hostile.steps(r, base, keys):
        snap = copy.deepcopy(obj)
        trail.append([label, snap])
        ref = Ref(program)
        try:
            exp = ref.run(copy.deepcopy(snap))
        except RecursionError:
            return
        mark = G.log.mark()
        with labrea.cache.disabled():
            got = observe(G.root.evaluate, obj)
        ctx.evaluations += 1
        ctx.count("hostile_steps")
        real_bodies = [e[2] for e in G.log.since(mark) if e[1] == "body"]
        ref_bodies = [p_ for k, p_, _ in ref.ran if k == "body"]
        extra = sorted(set(real_bodies) - set(ref_bodies))
        avoid = {id(u) for u in ref.unselected}
        only_unselected = set()
        for u in ref.unselected:
            only_unselected |= ref.reachable_datasets(u)
        only_unselected -= ref.reachable_avoiding(program["root"], avoid)
        forbidden = [p_ for p_ in extra if p_[2:].split(":")[0] in only_unselected]
        if got[0] == "ok" and exp[0] == "ok":
            ctx.count("hostile_steps_compared")
            if forbidden or got != exp:
                ctx.violation("hostile-history", f"step {len(trail)} ({label}) on one long-lived instance: bodies {forbidden} of alternatives the reference decides against ran "
                              f"(outcome {short(got, 80)}, reference {short(exp, 80)})",
                              {"family": "hostile", "program": program, "base": base, "case": case, "shard": ctx.shard, "shards": ctx.shards, "trail": trail[-3:], "source": tag})
                return
    if len(trail) > 2:
        ctx.nontrivial(spec_hash(["hostile", program, base, case]))


def run(ctx):
    rng = ctx.rng
    dicts = directed.dictionaries()
    if ctx.shard == 0:
        for i in range(60 if ctx.quick else 600):
            definition_time(ctx, case_rng(ctx, i))
    for i in range(ctx.n(120, 1200)):
        apply_order(ctx, case_rng(ctx, 777_000 + i))
        late_dispatch(ctx, case_rng(ctx, ("late", i)), i)
        selected_step_order(ctx, case_rng(ctx, ("selstep", i)), i)
        selected_branch_fails(ctx, case_rng(ctx, ("selfail", i)), i)
        dataset_class_members(ctx, case_rng(ctx, ("dsclass", i)), i)
    for i, p in enumerate(directed.programs()):
        if i % ctx.shards != ctx.shard:
            continue
        name = p.pop("name")
        if construction_case(ctx, p, f"directed:{name}") is None:
            continue
        for o in dicts:
            evaluation_case(ctx, p, o, f"directed:{name}")
    n = ctx.n(2400, 30000)
    for i in range(n):
        r = case_rng(ctx, i)
        program = program_for(r, r.choice([1, 2, 3]), n_datasets=r.choice([2, 3, 4, 5]))
        if construction_case(ctx, program, "random") is None:
            continue
        for _ in range(3):
            evaluation_case(ctx, program, U.random_options(r, p_present=0.7, closed_only=True), "random")
        if i % 3 == 0:
            hostile_laziness(ctx, program, U.random_options(r, p_present=0.7, closed_only=True), case_rng(ctx, ("hostile", i)), i)


def replay(ctx, rep):
    w = rep["witness"]
    if w.get("family") == "selected-branch-fails":
        ctx.shard, ctx.shards = w.get("shard", 0), w.get("shards", 1)
        selected_branch_fails(ctx, case_rng(ctx, ("selfail", w["case"])), w["case"])
    elif w.get("family") == "dataset-class":
        ctx.shard, ctx.shards = w.get("shard", 0), w.get("shards", 1)
        dataset_class_members(ctx, case_rng(ctx, ("dsclass", w["case"])), w["case"])
    elif w.get("family") == "selected-step":
        ctx.shard, ctx.shards = w.get("shard", 0), w.get("shards", 1)
        selected_step_order(ctx, case_rng(ctx, ("selstep", w["case"])), w["case"])
    elif w.get("family") == "late-dispatch":
        ctx.shard, ctx.shards = w.get("shard", 0), w.get("shards", 1)
        late_dispatch(ctx, case_rng(ctx, ("late", w["case"])), w["case"])
    elif w.get("family") == "hostile":
        ctx.shard, ctx.shards = w.get("shard", 0), w.get("shards", 1)
        r = case_rng(ctx, ("hostile", w["case"]))
        hostile_laziness(ctx, w["program"], w["base"], r, w["case"], "replay")
    elif "options" in w and "program" in w:
        evaluation_case(ctx, w["program"], w["options"], "replay")
    elif "program" in w:
        construction_case(ctx, w["program"], "replay")
    else:
        definition_time(ctx, ctx.rng)
