"""C20 — datasets survive a pickle round trip with identical behaviour.

Graphs are built from importable module-level parts (lvf.picklemod).  Oracle:
real-vs-real - outcomes and keys of loads(dumps(g)) (in-process and in a freshly
started interpreter with another hash seed) equal the original's on a dictionary
corpus, for every pickle protocol; the copy accepts further registration and
its registration is still lock-protected under the controlled scheduler.
"""
import copy
import json
import os
import pickle
import random
import subprocess
import sys
import tempfile

from .. import boot  # noqa: F401
from .. import sched as S

S.install()

import labrea._missing  # noqa: E402
import labrea.cache  # noqa: E402
from labrea import Option  # noqa: E402
from labrea.dataset import Dataset  # noqa: E402
from labrea.types import Value  # noqa: E402

from .. import picklemod as M  # noqa: E402
from ..gen import spec_hash  # noqa: E402
from ..outcome import observe, short  # noqa: E402

PROPERTY = "C20"
LEVEL = "exploration"
RULE = (
    "graph x pickle protocol 0-5 x {in-process, fresh interpreter with a different PYTHONHASHSEED}: for every dictionary "
    "of the corpus (present / absent / templated / dispatching options, warm and cold) outcome and keys of the copy equal "
    "the original's; overloads registered before pickling (function, list alias, Option, dataset) stay effective; after "
    "loading, register + evaluate work on the copy and leave the original untouched; concurrent registration on an "
    "unpickled dataset loses no alias under DFS/random schedules at opcode granularity.  distinct = sha1(graph, protocol, "
    "mode, dictionary); non-trivial = the dictionary selects an overload, a pre-set/default option or a template."
)
ASSUMPTIONS = ["graphs are built from importable module-level functions in explicit dataset(f) form; the decorator form is the recorded finding pickle-decorator-form-dataset"]
FLOORS = {"warm_memo_roundtrips": (6, 18), "warm_memo_children": (6, 18), "wired_together_checks": (12, 12), "roundtrips": (132, 132), "originals_compared_with_pristine_interpreter": (132, 132), "outcomes_compared": (5500, 5500), "child_interpreters": (30, 90), "post_load_registrations": (36, 36), "registrations_refused_alike": (72, 72), "post_dump_registrations_on_the_original": (36, 36),
          "unpickled_register_schedules": (150, 1500)}
SHARDS_QUICK = 2
SHARDS_THOROUGH = 4

CHILD = r"""
import json, pickle, sys, warnings
warnings.simplefilter("ignore")
from lvf import boot
from lvf.outcome import observe
import lvf.picklemod as M
data = pickle.load(open(sys.argv[1], "rb"))
out = []
for o in json.load(open(sys.argv[2])):  # (the parent's corpus: it may have grown at run time)
    out.append([repr(observe(data.evaluate, dict(o))), repr(observe(data.keys, dict(o)))])
if len(sys.argv) > 3:
    print(json.dumps({"effects": len(M.EFFECT_LOG)}))
else:
    print(json.dumps(out))
"""


PRISTINE_CHILD = r"""
import json, sys, warnings
warnings.simplefilter("ignore")
from lvf import boot
from lvf.outcome import observe
from labrea.types import Value
import labrea.cache
import lvf.picklemod as M
M.ds_dep.register("run-time", Value(("registered-at-run-time",)))
corpus = json.load(open(sys.argv[1]))
out = {}
with labrea.cache.disabled():
    for name, g in M.GRAPHS.items():
        out[name] = [[repr(observe(g.evaluate, dict(o))), repr(observe(g.keys, dict(o)))] for o in corpus]
print(json.dumps(out))
"""
_PRISTINE = {}


def pristine_behaviour(ctx):
    """What every graph does in an interpreter that has never pickled or unpickled anything (same module, same run-time
    registration): the yardstick for the originals of THIS process, which has."""
    if _PRISTINE:
        return _PRISTINE
    tmp = tempfile.mkdtemp(prefix="lvf-c20-")
    try:
        cpath = os.path.join(tmp, "corpus.json")
        with open(cpath, "w") as f:
            json.dump(M.CORPUS, f)
        env = dict(os.environ, PYTHONPATH=boot.VERIF)
        r = subprocess.run([sys.executable, "-B", "-c", PRISTINE_CHILD, cpath], cwd=boot.VERIF, env=env, capture_output=True, text=True, timeout=300)
        if r.returncode != 0:
            ctx.inconclusive.append(f"pristine interpreter failed: {r.stderr[-300:]}")
            return _PRISTINE
        _PRISTINE.update(json.loads(r.stdout.strip().splitlines()[-1]))
    except subprocess.TimeoutExpired:
        ctx.inconclusive.append("pristine interpreter timed out")
    finally:
        import shutil

        shutil.rmtree(tmp, ignore_errors=True)
    return _PRISTINE


def behaviour(g):
    return [[repr(observe(g.evaluate, copy.deepcopy(o))), repr(observe(g.keys, copy.deepcopy(o)))] for o in M.CORPUS]


def roundtrip(ctx, name, proto):
    g = M.GRAPHS[name]
    W = {"graph": name, "protocol": proto}
    try:
        blob = pickle.dumps(g, protocol=proto)
    except Exception as e:  # noqa: BLE001
        ctx.violation("pickle-dumps", f"{name} protocol {proto}: {type(e).__name__}: {str(e)[:200]}", W)
        return None
    try:
        g2 = pickle.loads(blob)
    except Exception as e:  # noqa: BLE001
        ctx.violation("pickle-loads", f"{name} protocol {proto}: {type(e).__name__}: {str(e)[:200]}", W)
        return None
    ctx.count("roundtrips")
    with labrea.cache.disabled():
        a = behaviour(g)
    base = pristine_behaviour(ctx).get(name)
    if base is not None:
        ctx.count("originals_compared_with_pristine_interpreter")
        for i, o in enumerate(M.CORPUS):
            if a[i] != base[i]:
                ctx.violation("loading-changed-the-original", f"{name} protocol {proto}: after copies were loaded in this process the ORIGINAL gives {a[i][0][:150]} on {o}; "
                              f"in an interpreter that never unpickled anything it gives {base[i][0][:150]}", {**W, "options": o})
                return None
    b_cold = behaviour(g2)
    b_warm = behaviour(g2)
    ctx.evaluations += 3 * len(M.CORPUS)
    for i, o in enumerate(M.CORPUS):
        ctx.count("outcomes_compared", 2)
        for label, b in (("cold copy", b_cold), ("warm copy", b_warm)):
            if a[i] != b[i]:
                ctx.violation("copy-behaves-differently", f"{name} protocol {proto} ({label}) on {o}: original {a[i][0][:150]} keys {a[i][1][:80]} / copy {b[i][0][:150]} keys {b[i][1][:80]}",
                              {**W, "options": o})
                return None
        if any(k in o for k in ("D", "E")) or "{" in json.dumps(o):
            ctx.nontrivial(spec_hash([name, proto, "in-process", o]))
    return blob, g2, a


def child_roundtrip(ctx, name, proto, blob, expected, hashseed):
    tmp = tempfile.mkdtemp(prefix="lvf-c20-")
    try:
        path = os.path.join(tmp, "g.pkl")
        with open(path, "wb") as f:
            f.write(blob)
        env = dict(os.environ, PYTHONHASHSEED=str(hashseed), PYTHONPATH=boot.VERIF)
        cpath = os.path.join(tmp, "corpus.json")
        with open(cpath, "w") as f:
            json.dump(M.CORPUS, f)
        try:
            r = subprocess.run([sys.executable, "-B", "-c", CHILD, path, cpath], cwd=boot.VERIF, env=env, capture_output=True, text=True, timeout=300)
        except subprocess.TimeoutExpired:
            ctx.inconclusive.append(f"child interpreter for {name} timed out")
            return
        W = {"graph": name, "protocol": proto, "hash_seed": hashseed, "mode": "fresh-interpreter"}
        if r.returncode != 0:
            ctx.violation("fresh-process-load", f"{name} protocol {proto}: child interpreter failed: {r.stderr[-300:]}", W)
            return
        got = json.loads(r.stdout.strip().splitlines()[-1])
        ctx.count("child_interpreters")
        for i, o in enumerate(M.CORPUS):
            ctx.count("outcomes_compared")
            if got[i] != expected[i]:
                ctx.violation("copy-behaves-differently", f"{name} protocol {proto} in a fresh interpreter (hash seed {hashseed}) on {o}: original {expected[i][0][:150]} / copy {got[i][0][:150]}",
                              {**W, "options": o})
                return
            ctx.nontrivial(spec_hash([name, proto, "child", hashseed, o]))
    finally:
        import shutil

        shutil.rmtree(tmp, ignore_errors=True)


def post_load_usable(ctx, name, g2):
    """The copy accepts registration and evaluates it; the original does not change."""
    g = M.GRAPHS[name]
    if not isinstance(g2, Dataset):
        return
    if g2.overloads.dispatch == Value(labrea._missing.MISSING):
        # a dataset without a dispatch refuses overloads - and so does its copy (same failures, also for registration)
        a = observe(lambda: g.overload("refused")(M.late_overload))
        b = observe(lambda: g2.overload("refused")(M.late_overload))
        ctx.count("registrations_refused_alike")
        if a[:2] != b[:2]:
            ctx.violation("copy-behaves-differently", f"{name}: overload() on a dataset without a dispatch gives {short(a)} on the original and {short(b)} on the unpickled copy", {"graph": name})
        return
    before = dict(g.overloads.lookup)
    try:
        # (aliases no dictionary of the corpus uses: a value stored before the registration would legitimately be served)
        g2.register("post-load", Value(("registered-late",)))
        g2.overload("post-load-2")(M.late_overload)
        from .. import universe as U

        dkey = M.DISPATCH_KEY.get(name, "D")
        v1 = observe(g2.evaluate, U.set_path({"C": 1}, dkey, "post-load"))
        v2 = observe(g2.evaluate, U.set_path({"C": 1, "E": "ee"}, dkey, "post-load-2"))
    except Exception as e:  # noqa: BLE001
        ctx.violation("copy-not-usable", f"{name}: registering on the unpickled copy raised {type(e).__name__}: {e}", {"graph": name})
        return
    ctx.count("post_load_registrations")
    if "registered-late" not in repr(v1) or "late" not in repr(v2) or v1[0] != "ok" or v2[0] != "ok":
        ctx.violation("copy-not-usable", f"{name}: after registering on the copy it evaluates to {short(v1)} / {short(v2)}", {"graph": name})
        return
    if dict(g.overloads.lookup) != before:
        ctx.violation("copy-shares-state", f"{name}: registering on the unpickled copy changed the original's overload table", {"graph": name})
        return
    # ... and having been pickled leaves the ORIGINAL as usable as it was
    try:
        g.register("post-dump-on-original", Value(("registered-on-the-original",)))
        v3 = observe(g.evaluate, U.set_path({"C": 1}, dkey, "post-dump-on-original"))
    except Exception as e:  # noqa: BLE001
        ctx.violation("original-not-usable", f"{name}: after it was pickled, registering on the ORIGINAL raised {type(e).__name__}: {e}", {"graph": name})
        return
    ctx.count("post_dump_registrations_on_the_original")
    if v3[0] != "ok" or "registered-on-the-original" not in repr(v3):
        ctx.violation("original-not-usable", f"{name}: after it was pickled, a registration on the ORIGINAL evaluates to {short(v3)}", {"graph": name})


def unpickled_register_schedules(ctx, proto, n_dfs, n_rand):
    """Concurrent registration on an unpickled dataset is still lock-protected."""

    def make():
        g2 = pickle.loads(pickle.dumps(M.ds_main, protocol=proto))
        S.cooperative(g2.overloads)
        n = 2

        def fn_for(i):
            def fn(s, me):
                for j in range(2):
                    s.op(me)
                    g2.register(f"k{i}.{j}", Value((i, j)))

            return fn

        def verify():
            missing = [f"k{i}.{j}" for i in range(n) for j in range(2) if f"k{i}.{j}" not in g2.overloads.lookup]
            return f"aliases {missing} registered concurrently on an unpickled dataset are missing" if missing else None

        return [fn_for(i) for i in range(n)], verify

    def one(chooser):
        fns, verify = make()
        s = S.Scheduler(chooser, "opcode")
        res = s.run(fns, timeout=60)
        ctx.count("unpickled_register_schedules")
        ctx.evaluations += 1
        W = {"scenario": "unpickled-register", "protocol": proto, "choices": list(chooser.trace)}
        if res.get("hung"):
            ctx.inconclusive.append("unpickled-register schedule hit the watchdog")
            return
        if res.get("deadlock") or res["errors"]:
            ctx.violation("unpickled-register", f"deadlock/exception: {res}", W)
            return
        msg = verify()
        if msg:
            ctx.violation("unpickled-register", msg, W)

    # (throw-away schedules first: the first traced schedule of a process sees fewer trace events, see c15.warmup)
    from ..verdict import Ctx as _Ctx

    real_ctx, ctx = ctx, _Ctx("C20", "quick", 0)
    for _ in range(2):
        one(S.ReplayChooser([]))
    ctx = real_ctx
    before = len(ctx.violations)
    for ch in S.dfs_schedules(one, 1, n_dfs):
        if len(ctx.violations) > before:
            return
    for j in range(n_rand):
        if len(ctx.violations) > before:
            return
        one(S.RandomChooser(random.Random(f"{ctx.seed}:{proto}:{j}"), p_switch=0.05))


def known_finding_reproducer(ctx):
    """Recorded finding: decorator-form dataset with a function body cannot be pickled."""
    try:
        g2 = pickle.loads(pickle.dumps(M.deco))
        if observe(g2.evaluate, {"A": 1}) != observe(M.deco.evaluate, {"A": 1}):
            ctx.violation("copy-behaves-differently", "decorator-form dataset behaves differently after the round trip", {"graph": "deco"})
    except Exception as e:  # noqa: BLE001
        # neutralisation: the same body in explicit form (ds_a) round-trips
        mech = None
        try:
            pickle.loads(pickle.dumps(M.ds_a))
            mech = "pickle-decorator-form-dataset"
        except Exception:  # noqa: BLE001
            pass
        ctx.violation("pickle-dumps", f"decorator-form dataset: {type(e).__name__}: {str(e)[:160]}", {"graph": "deco", "mechanism": mech})


def warm_memo_travels(ctx, name, proto, hashseed):
    """What a dataset has already computed is part of it: a warm copy answers the same dictionaries from its memory
    (no effect fires again), in-process and in a freshly started interpreter with another hash seed."""
    g = pickle.loads(pickle.dumps(M.GRAPHS[name], protocol=proto))  # a private copy to warm up
    warm_corpus = [o for o in M.CORPUS if observe(g.evaluate, dict(o))[0] == "ok"]
    blob = pickle.dumps(g, protocol=proto)
    g2 = pickle.loads(blob)
    n0 = len(M.EFFECT_LOG)
    for o in warm_corpus:
        g2.evaluate(dict(o))
    fired = len(M.EFFECT_LOG) - n0
    ctx.evaluations += 2 * len(warm_corpus)
    ctx.count("warm_memo_roundtrips")
    W = {"graph": name, "protocol": proto, "mode": "warm-memo", "hash_seed": hashseed}
    if fired:
        ctx.violation("copy-behaves-differently", f"{name} protocol {proto}: a warm copy re-ran {fired} effect(s) for dictionaries the original had already computed", W)
        return
    tmp = tempfile.mkdtemp(prefix="lvf-c20-")
    try:
        path, cpath = os.path.join(tmp, "g.pkl"), os.path.join(tmp, "corpus.json")
        with open(path, "wb") as f:
            f.write(blob)
        with open(cpath, "w") as f:
            json.dump(warm_corpus, f)
        env = dict(os.environ, PYTHONHASHSEED=str(hashseed), PYTHONPATH=boot.VERIF)
        try:
            r = subprocess.run([sys.executable, "-B", "-c", CHILD, path, cpath, "effects"], cwd=boot.VERIF, env=env, capture_output=True, text=True, timeout=300)
        except subprocess.TimeoutExpired:
            ctx.inconclusive.append(f"child interpreter for {name} timed out")
            return
        if r.returncode != 0:
            ctx.violation("fresh-process-load", f"{name} protocol {proto}: child interpreter failed: {r.stderr[-300:]}", W)
            return
        fired = json.loads(r.stdout.strip().splitlines()[-1])["effects"]
        ctx.count("warm_memo_children")
        if fired:
            ctx.violation("copy-behaves-differently", f"{name} protocol {proto}: in a fresh interpreter (hash seed {hashseed}) the warm copy re-ran {fired} effect(s) "
                          f"for {len(warm_corpus)} dictionaries the original had already computed", W)
            return
        ctx.nontrivial(spec_hash([name, proto, "warm-memo", hashseed]))
    finally:
        import shutil

        shutil.rmtree(tmp, ignore_errors=True)


def wired_together(ctx, proto):
    """Objects pickled together stay wired together: after loading (total, dependency) a registration on the loaded
    dependency is seen by the loaded consumer (and not by the originals)."""
    for consumer in (M.ds_total, M.ds_total_sig):
        alias = f"only-on-the-copy-{proto}-{consumer.__name__}"  # (never evaluated before: stored values travel in the pickle)
        try:
            total2, dep2 = pickle.loads(pickle.dumps((consumer, M.ds_dep), protocol=proto))
            dep2.register(alias, Value(("copy-only",)))
        except Exception as e:  # noqa: BLE001
            ctx.violation("copy-not-usable", f"protocol {proto}: loading (consumer, dependency) / registering on the loaded dependency raised {type(e).__name__}: {e}", {"graph": "wired", "protocol": proto})
            return
        got = observe(total2.evaluate, {"D": alias, "C": 1})
        orig = observe(consumer.evaluate, {"D": alias, "C": 1})
        ctx.evaluations += 2
        ctx.count("wired_together_checks")
        if "copy-only" not in repr(got):
            ctx.violation("copy-not-usable", f"protocol {proto}: (consumer, dependency) pickled together; a registration on the loaded dependency is not seen by the loaded consumer: {short(got)}",
                          {"graph": "wired", "protocol": proto})
            return
        if "copy-only" in repr(orig):
            ctx.violation("copy-shares-state", f"protocol {proto}: registering on the loaded dependency changed the original consumer: {short(orig)}", {"graph": "wired", "protocol": proto})
            return


def run(ctx):
    # state that exists only at run time (never in a freshly imported module): it must travel inside the pickle
    if "run-time" not in M.ds_dep.overloads.lookup:
        M.ds_dep.register("run-time", Value(("registered-at-run-time",)))
        M.CORPUS.append({"D": "run-time", "C": 4})
    for proto in range(0, pickle.HIGHEST_PROTOCOL + 1):
        if proto % ctx.shards == ctx.shard:
            wired_together(ctx, proto)
    names = sorted(M.GRAPHS)
    jobs = [(n, p) for n in names for p in range(0, pickle.HIGHEST_PROTOCOL + 1)]
    if ctx.shard == 0:
        known_finding_reproducer(ctx)
    for k, (name, proto) in enumerate(jobs):
        if k % ctx.shards != ctx.shard:
            continue
        res = roundtrip(ctx, name, proto)
        if res is None:
            continue
        blob, g2, expected = res
        post_load_usable(ctx, name, g2)
        if ctx.quick and proto not in (2, pickle.HIGHEST_PROTOCOL):
            continue
        for hs in ([1] if ctx.quick else [1, 7, 4242]):
            child_roundtrip(ctx, name, proto, blob, expected, hs)
    for k, (name, proto) in enumerate([(n, p) for n in ("ds_c", "ds_main", "expr_root") for p in (2, pickle.HIGHEST_PROTOCOL)]):
        if k % ctx.shards == ctx.shard:
            for hs in ([3] if ctx.quick else [3, 11, 4242]):
                warm_memo_travels(ctx, name, proto, hs)
    unpickled_register_schedules(ctx, pickle.HIGHEST_PROTOCOL if ctx.shard % 2 == 0 else 2, 60 if ctx.quick else 300, 40 if ctx.quick else 300)


def replay(ctx, rep):
    w = rep["witness"]
    if "run-time" not in M.ds_dep.overloads.lookup:
        M.ds_dep.register("run-time", Value(("registered-at-run-time",)))
        M.CORPUS.append({"D": "run-time", "C": 4})
    if w.get("mode") == "warm-memo":
        warm_memo_travels(ctx, w["graph"], w["protocol"], w.get("hash_seed", 3))
    elif w.get("graph") == "wired":
        wired_together(ctx, w.get("protocol", 2))
    elif w.get("graph") == "deco":
        known_finding_reproducer(ctx)
    elif "graph" in w:
        roundtrip(ctx, w["graph"], w.get("protocol", pickle.HIGHEST_PROTOCOL))
    else:
        run(ctx)
