"""C01 — caching is transparent.

Monitors: boundary recorder (warm / uncached / cold outcomes per history step),
request tap with the stale-hit monitor on every CacheGetRequest, cross-check
against the reference interpreter (never an alarm under C01).
"""
import copy

from .. import boot  # noqa: F401
import labrea.cache

from .. import directed
from .. import universe as U
from ..build import build
from ..cases import case_rng, program_for
from ..gen import mentioned_keys, spec_hash
from ..outcome import canon, err_outcome, observe, same, short
from ..ref import Ref, kinds_of
from ..tap import Tap
from ..findings import classify_fallback
from ..verdict import Ctx

PROPERTY = "C01"
LEVEL = "exploration"
RULE = (
    "case = (program, history of option dictionaries) evaluated against ONE long-lived instance "
    "(all caches shared over the history); per step the warm outcome, the outcome under "
    "labrea.cache.disabled() and the outcome of a freshly built copy must be equal, and every "
    "cache hit observed by the request tap must equal the uncached value of that node under the "
    "hit's options.  Histories are colliding dictionaries (single/double-key perturbations, "
    "revisits, noise, permutations).  distinct = sha1(spec, history); non-trivial = the history "
    "produced at least one cache hit AND at least two different outcomes."
)
ASSUMPTIONS = [
    "probe bodies are deterministic; one-shot iterators are never placed directly under a cache",
    "reference interpreter used as cross-check only (disagreements are counted, reported under C05)",
]
FLOORS = {"hits_compared": (400, 8000), "steps": (1500, 30000), "histories_with_hit_and_change": (80, 1500), "hostile_steps": (1200, 24000), "scalar_under_preset_section_steps": (14, 14), "templated_container_steps": (150, 150), "dataset_class_consumer_steps": (700, 14000)}
COVER = {"kinds_under_cache_with_hits": ["opt", "switch", "case", "coalesce", "bind", "map", "tmpl", "with", "apply", "list", "ds", "dc"]}
SHARDS_QUICK = 4
# domains only in the directed families: an out-of-domain value inside a bind/case dispatch of a skipped
# alternative is the recorded finding 'fallback-unexplainable-present-key' (see DESIGN.md)
FEATURES = {"domains": False}


def same_outcome(a, b):
    """Same value, or both fail (which failure is named first may differ, see above)."""
    if a[0] != b[0]:
        return False
    return a[0] == "err" or a[1] == b[1]


def run_history(ctx, program, history, tag="random"):
    G = build(program)
    log = G.log
    hits = []
    stale = []

    flags = {"explain_raised": False}

    def report(monitor, msg, W):
        """Attribute to the recorded fall-back finding only if an explain() raised while a fingerprint was
        computed in this history AND the violation disappears under the conservative neutralisation."""
        if flags["explain_raised"] and not getattr(ctx, "scratch", False):
            def rerun():
                sc = Ctx(ctx.prop, ctx.tier, ctx.seed)
                sc.scratch = True
                run_history(sc, program, list(snaps), tag)
                return len(sc.violations)

            W = {**W, "mechanism": classify_fallback(rerun)}
        ctx.violation(monitor, msg, W)

    def on_event(phase, kind, request, stack, result):
        if kind == "explain" and phase == "raise":
            flags["explain_raised"] = True
        if kind != "cache_get" or phase != "return":
            return
        tap.paused += 1
        try:
            with log.shadowed():
                with labrea.cache.disabled():
                    fresh = observe(request.evaluatable.evaluate, request.options)
            got = ("ok", canon(result))
            hits.append(1)
            if not same(got, fresh):
                stale.append((repr(request.evaluatable)[:200], copy.deepcopy(dict(request.options)), got, fresh))
        finally:
            tap.paused -= 1

    outcomes = set()
    n_hits_total = 0
    snaps = []
    for step, o in enumerate(history):
        if isinstance(o, tuple):  # (label, dictionary object) from lvf.hostile: the same object may come again, edited in place
            ctx.count("hostile_steps")
            o = o[1]
        snaps.append(copy.deepcopy(o))
        o_in = copy.deepcopy(o)
        uncached = None
        with log.shadowed():
            with labrea.cache.disabled():
                uncached = observe(G.root.evaluate, copy.deepcopy(o))
        tap = Tap(on_event=on_event, keep=False)
        hits.clear()
        stale.clear()
        with tap:
            warm = observe(G.root.evaluate, o)
        cold = observe(build(program).root.evaluate, copy.deepcopy(o))
        ctx.evaluations += 3
        ctx.count("steps")
        ctx.count("hits_compared", len(hits))
        n_hits_total += len(hits)
        outcomes.add(repr(uncached))
        witness = {"program": program, "history": snaps[: step + 1], "step": step, "source": tag}
        if stale:
            node, opts, got, fresh = stale[0]
            report(
                "stale-hit",
                f"cache hit for {node} under {short(opts)} returned {short(got)} but uncached evaluation gives {short(fresh)}",
                {**witness, "node": node, "hit_options": opts, "real": repr(got), "ref": repr(fresh)},
            )
            return
        if warm[0] == "err" and uncached[0] == "err" and not same(warm, uncached):
            # both fail; with caching on the fingerprint (keys()) is computed before the value, so a
            # different missing key / failure may be named first - not a difference in outcome
            ctx.count("failure_detail_differs_tolerated")
        if not same_outcome(warm, uncached):
            report(
                "warm-vs-uncached",
                f"step {step}: warm instance {short(warm)} but caching switched off gives {short(uncached)}",
                {**witness, "real": repr(warm), "ref": repr(uncached)},
            )
            return
        if not same_outcome(cold, uncached):
            report(
                "cold-vs-uncached",
                f"step {step}: fresh instance {short(cold)} but caching switched off gives {short(uncached)}",
                {**witness, "real": repr(cold), "ref": repr(uncached)},
            )
            return
        if o != o_in:
            ctx.violation("caller-dict-mutated", f"step {step}: options changed by evaluate()", witness)
            return
        r = Ref(program)
        try:
            exp = r.run(o)
            if exp[0] != uncached[0] or (exp[0] == "ok" and exp[1] != uncached[1]):
                ctx.count("ref_disagreements_not_alarmed")
        except RecursionError:
            pass
    if n_hits_total and len(outcomes) > 1:
        ctx.count("histories_with_hit_and_change")
        ctx.nontrivial(spec_hash([program, snaps]))
        for k in kinds_of(program):
            ctx.cover("kinds_under_cache_with_hits", k)
        ctx.sample({"program": program, "history": snaps[:3], "hits": n_hits_total, "distinct_outcomes": len(outcomes)}, limit=2)


def known_finding_reproducers(ctx):
    """Two recorded findings that need user callables the generators never produce (a function that raises on
    some inputs; a body that does not consume a lazy argument).  Each is attributed to its finding only if the
    neutralised variant (total function / fully consumed iterable) behaves transparently."""
    from labrea import Iter, Option, cached, coalesce, dataset

    def history(node, dicts):
        out = []
        for o in dicts:
            warm = observe(node.evaluate, dict(o))
            with labrea.cache.disabled():
                unc = observe(node.evaluate, dict(o))
            out.append((o, warm, unc))
        return [(o, w, u) for o, w, u in out if not same_outcome(w, u)]

    # (1) a coalesce member validates, its evaluation raises, a later member supplies the value
    dicts = [{"A": 0, "B": 1}, {"A": 0, "B": 2}, {"A": 5, "B": 2}, {"A": 0, "B": 1}]
    bad = history(cached(coalesce(Option("A") >> (lambda a: 10 // a), Option("B"))), dicts)
    ok = history(cached(coalesce(Option("A") >> (lambda a: 10 // (a or 1)), Option("B"))), dicts)
    ctx.evaluations += 16
    if bad:
        o, w, u = bad[0]
        ctx.violation("warm-vs-uncached", f"coalesce(Option('A') >> partial function, Option('B')) under a cache: {o} gives {short(w)} warm, {short(u)} uncached",
                      {"mechanism": "coalesce-member-validates-but-raises" if not ok else None, "options": o})
    # (2) a lazy Iter argument that the body does not consume completely
    def make(consume_all):
        @dataset
        def d(it=Iter(Option("A"), Option("Z"))):
            return list(it) if consume_all else next(iter(it))

        return d

    dicts = [{"A": 1}, {"A": 1, "Z": 2}, {"A": 3}]
    bad = history(make(False), dicts)
    ok = history(make(True), dicts)
    ctx.evaluations += 12
    if bad:
        o, w, u = bad[0]
        ctx.violation("warm-vs-uncached", f"dataset with a lazy Iter argument it does not consume: {o} gives {short(w)} with caching, {short(u)} without",
                      {"mechanism": "unconsumed-lazy-argument-keyed-eagerly" if not ok else None, "options": o})


def scalar_under_preset_section(ctx):
    """A derivative whose pre-set options hold a section, consumed by a cached dataset, with the caller holding a
    scalar (or null) under that section name: the cached graph answers / fails exactly like the uncached one."""
    from labrea import Option, dataset

    def child_body(a=Option("S.X", "dflt"), b=Option("B", 0)):
        return ("child", a, b)

    for derive in ("with_options", "with_default_options"):
        child = dataset(child_body)
        derived = getattr(child, derive)({"S": {"X": 1}})
        parent = dataset(lambda c=derived, d=Option("C", 0): ("parent", c, d))
        for o in ({"S": 5}, {"S": None, "B": 1}, {"S": {"Y": 2}}, {}, {"S": 5, "C": 1}, {"S": "txt", "B": 2}, {"S": 5}):
            with labrea.cache.disabled():
                want = observe(parent.evaluate, copy.deepcopy(o))
            got = observe(parent.evaluate, copy.deepcopy(o))
            ks = observe(parent.keys, copy.deepcopy(o))
            ctx.evaluations += 3
            ctx.count("scalar_under_preset_section_steps")
            if not same_outcome(got, want) or (ks[0] == "ok") != (want[0] == "ok"):
                ctx.violation("warm-vs-uncached", f"{derive}({{'S': {{'X': 1}}}}) under a cached consumer on {o}: cached {short(got)} (keys {short(ks)}) but caching switched off gives {short(want)}",
                              {"family": "scalar-under-preset-section", "derive": derive, "options": o})
                return


def templated_containers(ctx):
    """What a template (an explicit one, or an option's string default) substitutes may be a list or a section that
    holds templated strings itself, at any depth: the options those inner strings refer to decide the text, so two
    dictionaries that differ only there must not share a memoised value."""
    K = lambda spec: {"k": "cached", "spec": spec}  # noqa: E731
    T = lambda text: {"k": "tmpl", "text": text, "params": []}  # noqa: E731
    roots = {
        "whole": K(T("{B}")),
        "mid": K(T("{S.Y}-{B}")),
        "default": {"k": "ds", "id": "1"},
        "option": K({"k": "opt", "key": "B"}),
        "param": K({"k": "tmpl", "text": "{:p:}", "params": [["p", {"k": "opt", "key": "B"}]]}),
        "two-level": K(T("{C}")),
    }
    datasets = {"1": {"args": [["a", {"k": "opt", "key": "C", "dk": "tmpl", "dv": "{B}"}], ["b", {"k": "opt", "key": "S.Y", "dk": "const", "dv": 0}]], "form": "decorator"}}
    inners = [["{A}/a", "{A}/b"], [["{A}"], 1], [0, ["x", ["{A}{T.X}"]]], "{L.0}"]
    sections = [{"u": "{A}:1"}, {"u": {"v": ["{A}"]}, "w": 2}]  # (whole-string references only: str(dict) has braces)
    for name, root in roots.items():
        program = {"datasets": copy.deepcopy(datasets) if name == "default" else {}, "root": root}
        for inner in inners + (sections if name in ("whole", "default", "option", "two-level") else []):
            base = {"B": inner, "S": {"Y": "s"}, "T": {"X": "t"}, "L": ["{A}", 1]}
            if name == "two-level":
                base = {**base, "C": "{B}"}
            hist = []
            for a in (1, 2, 1, "x", U.ABSENT, 2, True):
                o = copy.deepcopy(base)
                if a is not U.ABSENT:
                    o["A"] = a
                hist.append(o)
            n0 = ctx.counters.get("steps", 0)
            run_history(ctx, program, hist, tag=f"templated-container:{name}")
            ctx.count("templated_container_steps", ctx.counters.get("steps", 0) - n0)


def dataset_class_consumers(ctx, i):
    """A memoising dataset whose argument is a dataset class (generated as in C19: inherited, dotted, dispatching,
    derived, privately named members): over a history of dictionaries the stored value is only returned for a
    dictionary under which every member evaluates to the same thing."""
    from labrea import dataset

    from .c19 import gen_options, make_class

    r = case_rng(ctx, ("dsclass", i))
    cls, members, _raw = make_class(r)
    relevant = sorted({k for _, ks in members.values() for k in ks})

    def body(c=cls):
        return tuple((name, getattr(c, name)) for name in sorted(members))

    consumer = dataset(body)
    base = gen_options(r, relevant)
    trail = []
    for step in range(7):
        o = copy.deepcopy(r.choice([base] + [t for t in trail]))
        if step and relevant:
            k = r.choice(relevant)
            o = U.set_path(o, k, r.choice([0, 1, "a", "changed", None])) if r.random() < 0.8 or not U.present(k, o) else U.del_path(o, k)
        trail.append(o)
        warm = observe(consumer.evaluate, copy.deepcopy(o))
        with labrea.cache.disabled():
            unc = observe(consumer.evaluate, copy.deepcopy(o))
        ctx.evaluations += 2
        ctx.count("dataset_class_consumer_steps")
        if not same_outcome(warm, unc):
            ctx.violation("warm-vs-uncached", f"step {step}: a cached dataset consuming a dataset class gives {short(warm)} but caching switched off gives {short(unc)}",
                          {"family": "dataset-class-consumer", "case": i, "shard": ctx.shard, "shards": ctx.shards, "members": {k: list(v) for k, v in members.items()}, "history": trail})
            return


def run(ctx):
    rng = ctx.rng
    for i in range(ctx.n(160, 3200)):
        dataset_class_consumers(ctx, i)
    if ctx.shard == 0:
        known_finding_reproducers(ctx)
        scalar_under_preset_section(ctx)
        templated_containers(ctx)
    dicts = directed.dictionaries()
    for i, p in enumerate(directed.programs()):
        if i % ctx.shards != ctx.shard:
            continue
        name = p.pop("name")
        # colliding directed history: all directed dictionaries twice (A, B, ..., A, B, ...)
        run_history(ctx, p, dicts + dicts[::-1], tag=f"directed:{name}")
        keys = sorted(mentioned_keys(p)) or None
        for _ in range(6 if ctx.quick else 30):
            run_history(ctx, p, U.history(rng, 8, keys, closed_only=True), tag=f"directed:{name}")
    n = ctx.n(500, 16000)
    depth = 3 if ctx.quick else 4
    length = 6 if ctx.quick else 10
    for i in range(n):
        r = case_rng(ctx, i)
        program = program_for(r, r.choice([1, 2, 3, depth]), features=FEATURES, n_datasets=r.choice([1, 2, 3, 4]))
        keys = sorted(mentioned_keys(program)) or None
        # AllOptions exposes the dictionary itself (incl. its key order) as a value: no permutations then
        star = "*" in Ref(program).may_read(program["root"]) or any("*" in Ref(program).may_read({"k": "ds", "id": d}) for d in program["datasets"])
        run_history(ctx, program, U.history(r, length, keys, permute=not star, closed_only=True))
        if i % 2 == 0:
            # the same long-lived cached instance over a hostile history (same dictionary object edited in place,
            # equal-but-differently-typed dictionaries, fail-then-complete): a hit must still be a value of THIS dictionary
            from .. import hostile

            base = U.random_options(r, p_present=0.75, templated=0.0, closed_only=True)
            run_history(ctx, program, hostile.steps(case_rng(ctx, ("hostile", i)), base, keys), tag="hostile")


def replay(ctx, rep):
    w = rep["witness"]
    if w.get("family") == "dataset-class-consumer":
        ctx.shard, ctx.shards = w.get("shard", 0), w.get("shards", 1)
        dataset_class_consumers(ctx, w["case"])
        return
    if w.get("family") == "scalar-under-preset-section":
        scalar_under_preset_section(ctx)
        return
    run_history(ctx, w["program"], w["history"], tag="replay")
