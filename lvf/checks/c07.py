"""C07 — overload and interface dispatch select exactly the registered implementation.

Monitors: boundary recorder over histories that interleave registration
(register, @overload, stacked @overload, list aliases, overload = another
dataset), set_dispatch, with_options and evaluations; probe values spell out
which implementation computed them.  Oracle: the reference interpreter run on
the program *as registered so far* (table model), for evaluations with caching
off exactly, with caching on up to values already stored for the same dispatch
values.  Interfaces: member consistency, defaults, rejection registers nothing.
"""
import copy

from .. import boot  # noqa: F401
import labrea.cache
from labrea import Option, abstractdataset, dataset, implements, interface

from .. import universe as U
from ..build import build
from ..cases import case_rng
from ..gen import Gen, spec_hash
from ..outcome import canon, observe, short
from ..probes import Log
from ..ref import Ref
from ..tap import Tap
from labrea.dataset import Dataset
from labrea.types import EvaluateRequest

PROPERTY = "C07"
LEVEL = "exploration"
RULE = (
    "history = random sequence over {register(alias, expr), @overload(alias | [aliases]) function, stacked @overload, "
    "overload = other dataset, evaluate(o) with caching off, evaluate(o) with caching on, derive with_options} on 1-3 "
    "datasets with dispatch in {option key, Option with default, dataset, none+set_dispatch}, abstract or not, with "
    "callback; after every operation the reference interpreter runs on the table registered so far.  Interfaces: "
    "random interfaces (annotation members, abstract, default dataset, plain Evaluatable default) with 1-3 "
    "implementations incl. multi-interface and list aliases; all members evaluated under each dispatch value; rejected "
    "implementations (missing abstract member / unknown member) must raise TypeError and leave every lookup table "
    "unchanged.  distinct = sha1(history); non-trivial = an evaluation selected a non-default implementation that was "
    "registered after an earlier evaluation."
)
ASSUMPTIONS = ["an alias registered again replaces the earlier registration for evaluations that are not already stored"]
FLOORS = {"histories": (1500, 12000), "uncached_evaluations_exact": (4000, 35000), "cached_evaluations_checked": (4000, 35000),
          "selected_registered_impl": (1000, 10000), "late_registrations_effective": (800, 6000), "interface_member_evaluations": (15000, 50000),
          "rejected_implementations": (2000, 3000), "reregistrations": (400, 3000), "derivative_dispatch_changes": (150, 1200), "self_referential_evaluations": (2000, 16000), "datasets_copied_mid_history": (800, 6000), "interfaces_with_tuple_aliases": (400, 3200), "prefix_dispatch_evaluations": (72, 72)}
SHARDS_QUICK = 4
ALIASES = ["x", "y", "z", 0, 1, None, "a", {"tuple": ["ds1", "default"]}, {"tuple": ["t", 1]}]


def gen_history(r):
    g = Gen(r, max_depth=1, features={"with": False, "map": False, "cached": False, "allopts": False, "coalesce": False, "domains": False})
    n = r.choice([1, 2, 2, 3])
    datasets = {}
    for i in range(1, n + 1):
        did = str(i)
        d = {"args": [[f"a{j}", g.opt(0)] for j in range(r.choice([0, 1, 2]))], "overloads": [], "form": r.choice(["decorator", "explicit"])}
        kind = r.choice(["key", "key", "opt-default", "dataset", "late"])
        if kind == "key":
            d["dispatch"] = r.choice(["D", "E"])
        elif kind == "opt-default":
            d["dispatch"] = {"k": "opt", "key": r.choice(["D", "E"]), "dk": "const", "dv": r.choice(ALIASES[:3])}
        elif kind == "dataset" and i > 1:
            src = {"k": "ds", "id": str(r.randrange(1, i))}
            # either the dataset's tuple value itself (tuple aliases) or its string form
            d["dispatch"] = src if r.random() < 0.5 else {"k": "apply", "src": src, "fn": "tostr", "n": g.nid()}
        elif kind == "late":
            d["dispatch"] = None
            d["late_dispatch"] = r.choice(["D", "E"])
        else:
            d["dispatch"] = r.choice(["D", "E"])
        if r.random() < 0.2 and kind != "late":
            d["abstract"] = True
        if r.random() < 0.4:
            d["callback"] = r.choice(["c1", "c2"])
        if r.random() < 0.15:
            d["cache"] = "nocache"
        datasets[did] = d
    g.program["datasets"] = datasets
    ops = []
    reregistered = [0]
    used = {did: set() for did in datasets}
    pending = {did: d.pop("late_dispatch") for did, d in datasets.items() if "late_dispatch" in d}
    for did, key in pending.items():
        # registrations made before the dispatch exists must survive set_dispatch
        for a in r.sample(ALIASES[:7], r.choice([0, 1, 2])):
            used[did].add(repr(a))
            ops.append(["register", did, a, {"expr": g.opt(0)}, False])
        if r.random() < 0.5:
            ops.append(["eval", did, U.random_options(r, p_present=0.7, templated=0.0, closed_only=True), r.random() < 0.5, False])
        ops.append(["set_dispatch", did, key])
    for _ in range(r.choice([6, 10, 14])):
        k = r.random()
        did = r.choice(list(datasets))
        if k < 0.4:
            free = [a for a in ALIASES if repr(a) not in used[did]]
            if not free:
                continue
            form = r.choice(["expr", "func", "func", "list", "stacked", "ds"])
            a = r.choice(free)
            taken = [x for x in ALIASES if repr(x) in used[did]]
            if taken and form in ("expr", "func", "ds") and r.random() < 0.25:
                # registering an alias again is a registration like any other: it applies to every later
                # evaluation that is not already stored
                a = r.choice(taken)
                reregistered[0] += 1
            if form == "list" and len(free) >= 2:
                alias = r.sample(free, 2)
            elif form == "stacked" and len(free) >= 2:
                alias = r.sample(free, 2)
            else:
                alias = a
            for x in alias if isinstance(alias, list) else [alias]:
                used[did].add(repr(x))
            if form == "expr":
                impl = {"expr": g.opt(0)}
            elif form == "ds" and len(datasets) > 1:
                other = r.choice([x for x in datasets if x != did])
                impl = {"ds": other}
            else:
                impl = {"args": [[f"b{j}", g.opt(0)] for j in range(r.choice([0, 1]))], "tag": f"ov{len(ops)}"}
            ops.append(["register", did, alias, impl, form == "stacked"])
        else:
            o = U.random_options(r, p_present=0.7, templated=0.05, closed_only=True)
            if r.random() < 0.8:
                o["D"] = r.choice(ALIASES[:7])
            if r.random() < 0.5:
                o["E"] = r.choice(ALIASES[:7])
            ops.append(["eval", did, o, r.random() < 0.5, r.random() < 0.15])
            if r.random() < 0.06:
                # a derivative receives a dispatch of its own: the dataset it derives from is not affected
                ops.append(["derived_set_dispatch", did, r.choice(["E", "N1"])])
            if r.random() < 0.12:
                # the dataset is copied (copy / deepcopy; the copy is evaluated once and dropped): the ORIGINAL is what it was
                ops.append(["transport", r.choice(list(datasets)), r.choice(["copy", "deepcopy"]), o])
    return {"datasets": datasets, "ops": ops, "reregistrations": reregistered[0]}


def dispatch_values(o):
    return (repr(U.lookup("D", o)), repr(U.lookup("E", o)))


def run_history(ctx, H, tag):
    program = {"datasets": copy.deepcopy(H["datasets"]), "root": {"k": "const", "v": 0}}
    G = build(program)
    for did in program["datasets"]:
        G.dataset(did)
    ctx.count("histories")
    ctx.count("reregistrations", H.get("reregistrations", 0))
    seen_values = {}  # did -> [(options of that evaluation, canon value returned with caching on)]
    evaluated_before = False
    late = False
    W = {"history": H, "source": tag}
    derived_P = {"N1": 1}
    detached = set()  # datasets whose derivative got its own dispatch (the derivative is no longer compared)
    for i, op in enumerate(H["ops"]):
        if op[0] == "derived_set_dispatch":
            dobj = G.expr({"k": "ds", "id": op[1], "P": derived_P})
            dobj.set_dispatch(Option(op[2]))
            dobj.register("only-on-the-derivative", Option("A", "derivative-only"))
            detached.add(op[1])
            ctx.count("derivative_dispatch_changes")
            continue
        if op[0] == "transport":
            clone = getattr(copy, op[2])(G.dataset(op[1]))
            with G.log.shadowed(), labrea.cache.disabled():  # (a shallow copy shares the store: nothing is to be stored on its behalf)
                observe(clone.evaluate, copy.deepcopy(op[3]))
            del clone
            ctx.count("datasets_copied_mid_history")
            continue
        if op[0] == "set_dispatch":
            G.dataset(op[1]).set_dispatch(Option(op[2]))
            program["datasets"][op[1]]["dispatch"] = op[2]
            continue
        if op[0] == "register":
            _, did, alias, impl, stacked = op
            try:
                if stacked and isinstance(alias, list) and impl.get("args") is not None:
                    # stacked decorators: @d.overload(a1) @d.overload(a2) def f
                    tagname = impl["tag"]
                    body = G._body(did, tagname, impl.get("args", []))
                    obj = G.dataset(did)
                    from ..ref import alias_value

                    inner = obj.overload(alias_value(alias[1]))(body)
                    obj.overload(alias_value(alias[0]))(inner)
                    G.dataset_ids[id(inner)] = f"{did}/{tagname}"
                else:
                    G.register(did, alias, impl)
            except Exception as e:  # noqa: BLE001  (a legal registration: aliases are hashable, implementations evaluatable)
                ctx.violation("registration-raised", f"step {i}: registering {alias!r} on dataset {did} raised {type(e).__name__}: {e}", {**W, "step": i})
                return
            program["datasets"][did].setdefault("overloads", []).append([alias, impl])
            if G.log.events and any(e[1] == "body" for e in G.log.events[-1:]) and False:
                pass
            if evaluated_before:
                late = True
            continue
        _, did, o, cached_mode, derived = op
        spec = {"k": "ds", "id": did}
        obj = G.dataset(did)
        if derived and did in detached:
            derived = False
        if derived:
            spec["P"] = derived_P
            obj = G.expr(spec)
        ref = Ref(program)
        try:
            exp = ref.outcome(spec, o)
        except RecursionError:
            continue
        ctx.evaluations += 1
        Wi = {**W, "step": i}
        if not cached_mode:
            with labrea.cache.disabled():
                got = observe(obj.evaluate, copy.deepcopy(o))
            ctx.count("uncached_evaluations_exact")
            if got[0] != exp[0] or (got[0] == "ok" and got[1] != exp[1]):
                ctx.violation("wrong-implementation", f"step {i}: dataset {did} under {short(o)} (caching off) gives {short(got)}, the registered table selects {short(exp)}", Wi)
                return
        else:
            fresh_entries = []

            def dkey(d_id, opts):
                disp = program["datasets"][d_id].get("dispatch")
                dspec = {"k": "opt", "key": disp} if isinstance(disp, str) else disp
                return (d_id, repr(Ref(program).outcome(dspec, opts)) if dspec else "*")

            def on_event(phase, kind, request, stack, result):
                # every dataset value produced while caching is on may be stored - also for datasets that are
                # only evaluated indirectly (as a dispatch or an overload of another dataset)
                if phase == "return" and kind == "evaluate" and isinstance(request.evaluatable, Dataset):
                    d_id = str(G.dataset_ids.get(id(request.evaluatable), "")).split("/")[0]
                    if d_id in program["datasets"]:
                        try:
                            fresh_entries.append(((d_id, copy.deepcopy(dict(request.options))), repr(canon(result))))
                        except RecursionError:
                            pass

            inner_hits = []

            def on_event2(phase, kind, request, stack, result):
                on_event(phase, kind, request, stack, result)
                if phase == "return" and kind == "cache_get" and request.cache is not obj.cache:
                    inner_hits.append(1)

            from labrea.cache import CacheGetRequest

            with Tap(types=[EvaluateRequest, CacheGetRequest], on_event=on_event2, keep=False):
                got = observe(obj.evaluate, copy.deepcopy(o))
            for k2, v2 in fresh_entries:
                pass
            if inner_hits:
                # the result embeds a value another dataset had already stored (possibly before a later
                # registration on it): by the statement that value stays; the exact comparison is the uncached one
                ctx.count("cached_evaluations_with_inner_hits_not_compared")
                for k2, v2 in fresh_entries:
                    seen_values.setdefault(k2[0], []).append((k2[1], v2))
                evaluated_before = True
                continue
            ctx.count("cached_evaluations_checked")
            # "already stored": a value produced earlier for the same (effective) dispatch value of this dataset
            # (derivatives share the dataset's cache)
            key = dkey(did, o)
            # (which dispatch value an earlier entry belongs to is decided with the dispatch expression the dataset has
            #  NOW: a value stored before set_dispatch under options that give today's dispatch value is "already stored")
            allowed = set()
            for opts_then, v_then in seen_values.get(did, []):
                try:
                    if dkey(did, opts_then) == key:
                        allowed.add(v_then)
                except RecursionError:
                    pass
            ok = (got[0] == exp[0] and (got[0] == "err" or got[1] == exp[1])) or (got[0] == "ok" and repr(got[1]) in allowed)
            if not ok:
                ctx.violation("wrong-implementation-cached", f"step {i}: dataset {did} under {short(o)} gives {short(got)}; the table now selects {short(exp)} and "
                              f"no value was stored earlier for these dispatch values", Wi)
                return
            for k2, v2 in fresh_entries:
                seen_values.setdefault(k2[0], []).append((k2[1], v2))
        evaluated_before = True
        if exp[0] == "ok" and ref.selected and any(t != "default" for d_, t in ref.selected if d_ == did):
            ctx.count("selected_registered_impl")
            if late and got[0] == "ok" and got[1] == exp[1]:
                ctx.count("late_registrations_effective")
                ctx.nontrivial(spec_hash([H, i]))
    ctx.sample({"datasets": H["datasets"], "ops": H["ops"][:6]}, limit=2)


# ---------------------------------------------------------------------------
# interfaces


def interface_case(ctx, r):
    log = Log()
    disp_key = r.choice(["D", "I.KIND"])
    # every third interface dispatches on a VALUE computed from the option (a two-part key given as a JSON list becomes
    # a tuple): a tuple alias is one alias - only a list spells several
    tuple_mode = r.random() < 0.35

    def as_alias(v):
        return tuple(v) if isinstance(v, list) else v

    dispatch = (Option(disp_key) >> as_alias) if tuple_mode else disp_key

    def body(tag):
        def f():
            log.hit("body", tag)
            return tag

        f.__name__ = tag.replace(":", "_").replace(".", "_")
        return f

    def make_iface(name):
        members = {}
        ns = {"__annotations__": {}}
        for j in range(r.choice([2, 3, 4])):
            m = f"m{j}"
            kind = r.choice(["annot", "abstract", "default-ds", "default-fn", "default-ev"])
            members[m] = kind
            if kind == "annot":
                ns["__annotations__"][m] = str
            elif kind == "abstract":
                ns[m] = abstractdataset(body(f"{name}.{m}:abstract"))
            elif kind == "default-ds":
                ns[m] = dataset(body(f"{name}.{m}:default"))
            elif kind == "default-fn":
                ns[m] = staticmethod(body(f"{name}.{m}:default"))
            else:
                ns[m] = Option("Z", f"{name}.{m}:default")
        return interface(dispatch)(type(name, (), ns)), members

    I1, mem1 = make_iface("I1")
    ifaces = [(I1, mem1, "I1")]
    if r.random() < 0.4:
        I2, mem2 = make_iface("I2")
        ifaces.append((I2, mem2, "I2"))
    aliases_all = ["a", "b", "c", 1, "x"] + ([("t", 1), ("a", "b")] if tuple_mode else [])
    r.shuffle(aliases_all)
    if tuple_mode:
        ctx.count("interfaces_with_tuple_aliases")
    expected = {}  # (iface name, member) -> {alias: tag}
    for (_, mem, name) in ifaces:
        for m in mem:
            expected[(name, m)] = {}
    n_impl = r.choice([1, 2, 3])
    ai = 0
    for k in range(n_impl):
        alias = aliases_all[ai]
        ai += 1
        alias_list = [alias]
        if r.random() < 0.3 and ai < len(aliases_all):
            alias_list.append(aliases_all[ai])
            ai += 1
        targets = ifaces if (len(ifaces) > 1 and r.random() < 0.5) else [r.choice(ifaces)]
        names = sorted(set(m for (_, mem, _) in targets for m in mem))
        ns = {}
        for m in names:
            must = any(mem.get(m) in ("annot", "abstract") for (_, mem, _) in targets)
            if must or r.random() < 0.5:
                tag = f"impl{k}.{m}"
                form = r.choice(["fn", "ds", "value", "option", "ds-callback", "ds-preset", "ds-dispatching"])
                if form == "fn":
                    ns[m] = staticmethod(body(tag))
                elif form == "ds":
                    ns[m] = dataset(body(tag))
                elif form == "ds-callback":
                    # the implementation is a dataset in its own right: its callback, pre-set options and its own
                    # dispatch belong to it
                    ns[m] = dataset(body(tag), callback=lambda v: v + "!")
                    tag = tag + "!"
                elif form == "ds-preset":
                    def with_q(q=Option("Q9", "none"), _t=tag):
                        return _t + ":" + q

                    ns[m] = dataset(with_q, options={"Q9": "preset"})
                    tag = tag + ":preset"
                elif form == "ds-dispatching":
                    inner = dataset(body(tag + ":inner-default"), dispatch=Option("N9", "pick"))
                    inner.register("pick", Option("Z9", tag + ":picked"))
                    ns[m] = inner
                    tag = tag + ":picked"
                elif form == "value":
                    ns[m] = tag
                else:
                    ns[m] = Option("Q", tag)
                for (_, mem, name) in targets:
                    if m in mem:
                        for a in alias_list:
                            expected[(name, m)][a] = tag
        before = snapshot_tables(ifaces)
        try:
            implements(*[t[0] for t in targets], alias=alias_list if len(alias_list) > 1 else alias_list[0])(type(f"Impl{k}", (), ns))
        except Exception as e:  # noqa: BLE001
            ctx.violation("valid-implementation-rejected", f"{type(e).__name__}: {e}", {"seed": "interface"})
            return
        # a rejected implementation: drop one required member / add an unknown one
        bad_ns = dict(ns)
        required = [m for m in names if any(mem.get(m) in ("annot", "abstract") for (_, mem, _) in targets)]
        mode = "unknown"
        if required and r.random() < 0.6:
            bad_ns.pop(r.choice(required))
            mode = "missing"
        else:
            bad_ns["not_a_member"] = 1
        mid = snapshot_tables(ifaces)
        try:
            implements(*[t[0] for t in targets], alias=f"bad{k}")(type(f"Bad{k}", (), bad_ns))
            ctx.violation("invalid-implementation-accepted", f"implementation with a {mode} member was accepted", {"mode": mode})
            return
        except TypeError:
            pass
        ctx.count("rejected_implementations")
        after = snapshot_tables(ifaces)
        if after != mid:
            changed = [k_ for k_ in after if after[k_] != mid.get(k_)]
            ctx.violation("rejected-implementation-registered", f"a rejected implementation ({mode} member) changed the lookup tables of {changed}", {"mode": mode})
            return
    if log.events:
        ctx.violation("body-ran-at-definition", "defining interfaces / implementations ran a body", {})
        return
    # evaluate every member under every alias (and an unregistered one)
    for alias in aliases_all[:ai] + ["unregistered"]:
        o = U.set_path({}, disp_key, list(alias) if isinstance(alias, tuple) else alias)
        for (I, mem, name) in ifaces:
            for m, kind in mem.items():
                got = observe(getattr(I, m).evaluate, copy.deepcopy(o))
                ctx.evaluations += 1
                ctx.count("interface_member_evaluations")
                tag = expected[(name, m)].get(alias)
                if tag is not None:
                    exp = ("ok", canon(tag))
                elif kind in ("annot", "abstract"):
                    exp = ("err",)
                else:
                    exp = ("ok", canon(f"{name}.{m}:default"))
                if (exp[0] == "err") != (got[0] == "err") or (exp[0] == "ok" and got != exp):
                    ctx.violation("interface-member-dispatch", f"{name}.{m} under {disp_key}={alias!r}: {short(got)}, expected {short(exp)}",
                                  {"iface": name, "member": m, "alias": alias, "kind": kind})
                    return
                if tag is not None:
                    ctx.nontrivial(spec_hash(["iface", name, m, repr(alias), tag, r.random()]))


def snapshot_tables(ifaces):
    out = {}
    for (I, mem, name) in ifaces:
        for m in mem:
            out[(name, m)] = dict(getattr(I, m).overloads.lookup)
    return out


def self_referential(ctx, r, case):
    """Implementations that consume a DERIVATIVE of the very dataset they are registered on (the derivative pins the
    dispatch value and shares the dataset's store): while one dispatch value is being computed, the same store is asked
    for - and answers - another.  Every evaluation still returns the value of ITS dispatch value."""
    from labrea import dataset

    form = r.choice(["key", "option-default"])
    disp = "D" if form == "key" else Option("D", "plain")

    def plain(a=Option("A", 0)):
        return ("plain", a)

    ds = dataset(plain, dispatch=disp)
    pinned_plain = ds.with_options({"D": "plain"})

    def fancy(inner=pinned_plain, b=Option("B", 0)):
        return ("fancy", inner, b)

    ds.overload("fancy")(fancy)
    pinned_fancy = ds.with_options({"D": "fancy"}) if r.random() < 0.5 else ds.with_default_options({"A": 7}).with_options({"D": "fancy"})

    def shout(inner=pinned_fancy, other=pinned_plain):
        return ("shout", inner, other)

    ds.overload(["shout", "yell"])(shout)
    seven = "A" if pinned_fancy.default_options else None

    def model(o):
        d, a, b = o.get("D", "plain" if form != "key" else None), o.get("A", 0), o.get("B", 0)
        if d == "fancy":
            return ("fancy", ("plain", a), b)
        if d in ("shout", "yell"):
            a2 = o.get("A", 7) if seven else a
            return ("shout", ("fancy", ("plain", a2), b), ("plain", a))
        return ("plain", a)

    trail = []
    for step in range(r.choice([4, 6, 9])):
        o = {}
        if r.random() < 0.85:
            o["D"] = r.choice(["plain", "fancy", "fancy", "shout", "yell", "other"])
        if r.random() < 0.7:
            o["A"] = r.choice([1, 2])
        if r.random() < 0.3:
            o["B"] = r.choice([1, 2])
        off = r.random() < 0.15
        subject = r.choice([ds, ds, ds, pinned_plain, pinned_fancy])
        oo = dict(o)
        if subject is pinned_plain:
            oo["D"] = "plain"
        elif subject is pinned_fancy:
            oo["D"] = "fancy"
            if seven and "A" not in oo:
                oo["A"] = 7
        exp = ("ok", canon(model(oo)))
        if off:
            with labrea.cache.disabled():
                got = observe(subject.evaluate, copy.deepcopy(o))
        else:
            got = observe(subject.evaluate, copy.deepcopy(o))
        trail.append([o, "off" if off else "on", "ds" if subject is ds else ("pinned-plain" if subject is pinned_plain else "pinned-fancy")])
        ctx.evaluations += 1
        ctx.count("self_referential_evaluations")
        if got != exp:
            ctx.violation("self-referential-implementation", f"step {step}: {trail[-1]} gives {short(got)}; its dispatch value selects {short(exp)}",
                          {"family": "self-referential", "case": case, "shard": ctx.shard, "shards": ctx.shards, "trail": trail})
            return
    ctx.nontrivial(spec_hash(["self-referential", form, trail]))


def prefix_dispatch(ctx):
    """The dispatch key's NAME extends the name of another key the implementations read (D / D2, S.X / S.XL, L.1 / L.10):
    they are different keys, and a value stored for one dispatch value is not returned for another."""
    def options_for(short, long, sv, lv):
        if short.startswith("L."):
            lst = ["pad"] * 11
            lst[1] = sv
            if lv is not None:
                lst[10] = lv
            else:
                lst = lst[:10]
            return {"L": lst}
        o = U.set_path({}, short, sv)
        return U.set_path(o, long, lv) if lv is not None else o

    for short, long in (("D", "D2"), ("S.X", "S.XL"), ("L.1", "L.10"), ("A", "A_KIND")):
        for cache_mode in ("memory", "off"):
            def default(v=Option(short, "dflt")):
                return ("default", v)

            ds = dataset(default, dispatch=long)

            def impl_x(v=Option(short, "dflt")):
                return ("x", v)

            ds.overload("x")(impl_x)
            ds.register("y", Option(short, "dflt") >> (lambda v: ("y", v)))
            for step, (sv, lv) in enumerate([(1, "x"), (1, "y"), (1, "x"), (1, None), (1, "z"), (2, "y"), (1, "y"), (2, "x"), (1, "x")]):
                o = options_for(short, long, sv, lv)
                want = ("ok", canon((lv if lv in ("x", "y") else "default", sv)))
                if cache_mode == "off":
                    with labrea.cache.disabled():
                        got = observe(ds.evaluate, copy.deepcopy(o))
                else:
                    got = observe(ds.evaluate, copy.deepcopy(o))
                ctx.evaluations += 1
                ctx.count("prefix_dispatch_evaluations")
                if got != want:
                    ctx.violation("wrong-implementation-cached" if cache_mode == "memory" else "wrong-implementation",
                                  f"dispatch on {long!r}, implementations read {short!r}: step {step} under {short}={sv!r}, {long}={lv!r} gives {short_(got)}, the table selects {short_(want)}",
                                  {"family": "prefix-dispatch", "short": short, "long": long, "step": step})
                    return
    ctx.nontrivial(spec_hash(["prefix-dispatch"]))


short_ = short


def run(ctx):
    if ctx.shard == 0:
        prefix_dispatch(ctx)
    n = ctx.n(2000, 16000)
    for i in range(n):
        r = case_rng(ctx, i)
        run_history(ctx, gen_history(r), "random")
        interface_case(ctx, r)
        if i % 4 == 0:
            self_referential(ctx, case_rng(ctx, ("selfref", i)), i)


def replay(ctx, rep):
    w = rep["witness"]
    if w.get("family") == "prefix-dispatch":
        prefix_dispatch(ctx)
    elif w.get("family") == "self-referential":
        ctx.shard, ctx.shards = w.get("shard", 0), w.get("shards", 1)
        self_referential(ctx, case_rng(ctx, ("selfref", w["case"])), w["case"])
    elif "history" in w:
        run_history(ctx, w["history"], "replay")
    else:
        run(ctx)
