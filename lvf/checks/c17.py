"""C17 — an unreliable cache backend costs recomputation, never a wrong value or failure.

Fault enumeration over a scripted Cache subclass that follows the Cache
contract over a correct store and, at backend call index i, performs script[i].
"""
import copy
import itertools

from .. import boot  # noqa: F401
from labrea.cache import Cache, CacheGetFailure, MemoryCache

from .. import directed
from ..build import build
from ..cases import case_rng
from ..gen import spec_hash
from ..outcome import observe, short

PROPERTY = "C17"
LEVEL = "fault_enumeration"
ACTIONS = ["behave", "miss", "forget", "lie-exists", "fail-get"]
RULE = (
    "backend = Cache subclass over a correct store whose i-th call (get/set/exists, counted across all datasets of "
    "the graph) performs script[i] in {behave, miss, forget, lie-exists, fail-get}; all 5^N scripts for the first "
    "N=4 (quick) / 6 (thorough) calls, random longer scripts, both with the inherited exists() and with an own "
    "exists(); histories of 3-6 evaluations on single-dataset / chain / diamond / overload graphs and on graphs whose datasets cannot be built for some dictionaries (coalesce / switch-default fall-backs over them).  Oracle: every "
    "validate() of the previous options is asked between two evaluations in every second history position; "
    "evaluation returns the value of a fault-free instance, never raises; body runs per dataset <= evaluations of it. "
    "distinct = sha1(graph, script, variant, history); non-trivial = at least one non-'behave' action was executed."
)
ASSUMPTIONS = ["the backend never returns a value it was not given for that fingerprint (it follows the Cache contract)"]
FLOORS = {"scripts": (2500, 60000), "faulty_actions_executed": (5000, 100000), "evaluations_compared": (8000, 200000), "persistent_fault_evaluations": (4000, 4000)}
COVER = {"actions_executed": ["miss", "forget", "lie-exists", "fail-get"], "methods_faulted": ["get", "set", "exists"], "persistent_modes": ["unreadable", "blind", "amnesic"]}
SHARDS_QUICK = 4


class Script:
    def __init__(self, actions):
        self.actions = list(actions)
        self.i = 0
        self.executed = []  # (method, action)

    def next(self, method):
        a = self.actions[self.i] if self.i < len(self.actions) else "behave"
        self.i += 1
        self.executed.append((method, a))
        return a


class FaultyCache(Cache):
    """Follows the Cache contract (get raises CacheGetFailure on a miss, never returns a foreign value)."""

    def __init__(self, script, own_exists):
        self.store = {}
        self.script = script
        self.own_exists = own_exists

    def get(self, evaluatable, options):
        fp = evaluatable.fingerprint(options)
        a = self.script.next("get")
        if a in ("miss", "fail-get"):
            raise CacheGetFailure(evaluatable, options, self)
        if a == "forget":
            self.store.pop(fp, None)
        if fp not in self.store:
            raise CacheGetFailure(evaluatable, options, self)
        return self.store[fp]

    def set(self, evaluatable, options, value):
        fp = evaluatable.fingerprint(options)
        a = self.script.next("set")
        if a in ("miss", "forget"):
            self.store.pop(fp, None)  # accepts the value and loses it: the read-back will fail
            return
        self.store[fp] = value

    def exists(self, evaluatable, options):
        if not self.own_exists:
            return super().exists(evaluatable, options)
        a = self.script.next("exists")
        if a == "lie-exists":
            return True  # (a lying backend does not need the fingerprint - the key set may not even be computable)
        if a == "miss":
            return False
        fp = evaluatable.fingerprint(options)
        if a == "forget":
            self.store.pop(fp, None)
            return False
        return fp in self.store


class FaultyMemoryCache(MemoryCache):
    """A user backend DERIVED from the library's own MemoryCache (the shortest way to write one): it overrides the three
    methods to misbehave when the script says so and otherwise inherits the library's implementation."""

    def __init__(self, script):
        super().__init__()
        self.script = script

    def get(self, evaluatable, options):
        a = self.script.next("get")
        if a in ("miss", "fail-get", "forget"):
            raise CacheGetFailure(evaluatable, options, self)
        return super().get(evaluatable, options)

    def set(self, evaluatable, options, value):
        a = self.script.next("set")
        if a in ("miss", "forget"):
            return  # accepts the value and loses it
        super().set(evaluatable, options, value)

    def exists(self, evaluatable, options):
        a = self.script.next("exists")
        if a == "lie-exists":
            return True
        if a in ("miss", "forget"):
            return False
        return super().exists(evaluatable, options)


class DelegatingCache(Cache):
    """A contract-abiding adapter (tier / namespace / pass-through) in front of a faulty store: the failure the store
    raises is handed on as it is, so the CacheGetFailure names the inner store, not the object the dataset holds."""

    def __init__(self, inner):
        self.inner = inner

    def get(self, evaluatable, options):
        return self.inner.get(evaluatable, options)

    def set(self, evaluatable, options, value):
        self.inner.set(evaluatable, options, value)

    def exists(self, evaluatable, options):
        return self.inner.exists(evaluatable, options)


class Runaway(BaseException):
    """Raised by the persistent backend when one evaluation makes an unreasonable number of backend calls."""


class PersistentlyFaultyCache(Cache):
    """Follows the Cache contract, but from its `after`-th call on behaves in one fixed faulty way for good:
    unreadable = every stored entry is still reported by exists() and can never be read back (corrupt file, expired
    blob); blind = exists() always says no; amnesic = accepts values and never keeps them."""

    def __init__(self, mode, after, budget, own_exists=True):
        self.store, self.mode, self.after, self.n, self.budget, self.calls = {}, mode, after, 0, budget, 0
        self.own_exists = own_exists

    def _tick(self):
        self.n += 1
        self.calls += 1
        if self.calls > self.budget[0]:
            raise Runaway(f"more than {self.budget[0]} backend calls in one evaluation")
        return self.n > self.after

    def get(self, evaluatable, options):
        faulty = self._tick()
        fp = evaluatable.fingerprint(options)
        if fp not in self.store or (faulty and self.mode in ("unreadable", "amnesic")):
            raise CacheGetFailure(evaluatable, options, self)
        return self.store[fp]

    def set(self, evaluatable, options, value):
        faulty = self._tick()
        if faulty and self.mode == "amnesic":
            return
        self.store[evaluatable.fingerprint(options)] = value

    def exists(self, evaluatable, options):
        if not self.own_exists:
            return super().exists(evaluatable, options)
        faulty = self._tick()
        if faulty and self.mode == "blind":
            return False
        return evaluatable.fingerprint(options) in self.store


def run_persistent(ctx, gname, program, history, mode, after, own_exists):
    """A backend that stays faulty: every evaluation still terminates (bounded number of backend calls) with the
    value of a reliable backend."""
    caches = []
    budget = [400]

    def factory(kind):
        c = PersistentlyFaultyCache(mode, after, budget, own_exists)
        caches.append(c)
        return c

    G = build(program, cache_factory=factory)
    clean = build(program)
    W = {"family": "persistent", "graph": gname, "mode": mode, "after": after, "own_exists": own_exists, "history": history}
    for step, o in enumerate(history):
        exp = observe(clean.root.evaluate, copy.deepcopy(o))
        for c in caches:
            c.calls = 0
        try:
            got = observe(G.root.evaluate, copy.deepcopy(o))
        except Runaway as e:
            ctx.violation("unbounded-backend-calls", f"{gname} step {step}, backend persistently {mode} after call {after}: {e}", {**W, "step": step})
            return
        ctx.evaluations += 1
        ctx.count("persistent_fault_evaluations")
        if got != exp:
            ctx.violation("faulty-backend-changes-outcome", f"{gname} step {step}, backend persistently {mode} after call {after}: got {short(got)}, a reliable backend gives {short(exp)}", {**W, "step": step})
            return
    ctx.cover("persistent_modes", mode)
    ctx.nontrivial(spec_hash(["persistent", gname, mode, after, own_exists]))


O = directed.O
DS = directed.DS
GRAPHS = {
    "single": directed.prog(DS(1), d1={"args": [["a", O("A", dk="const", dv=0)]], "effects": ["e"]}),
    "chain": directed.prog(DS(2), d1={"args": [["a", O("A", dk="const", dv=0)]]}, d2={"args": [["x", DS(1)], ["b", O("B", dk="const", dv=0)]], "callback": "c1"}),
    # callbacks that are callables without a __name__ (functools.partial on odd, a callable object on even dataset ids):
    # a backend's failure report must not depend on what the graph it was handed looks like when printed
    "callables": directed.prog(DS(2), d1={"args": [["a", O("A", dk="const", dv=0)]], "callback": "c2"}, d2={"args": [["x", DS(1)], ["b", O("B", dk="const", dv=0)]], "callback": "c2"}),
    # option names that are string prefixes of one another (A / AB, L.1 / L.10): what keeps two entries of a store apart
    "prefix-named": directed.prog(DS(2), d1={"args": [["a", O("A", dk="const", dv=0)], ["ab", O("AB", dk="const", dv=0)]]},
                                  d2={"args": [["x", DS(1)], ["l1", O("L.1", dk="const", dv=None)], ["l10", O("L.10", dk="const", dv=None)]]}),
    "diamond": directed.prog(DS(4), d1={"args": [["a", O("A", dk="const", dv=0)]]}, d2={"args": [["x", DS(1)]]}, d3={"args": [["x", DS(1)], ["b", O("B", dk="const", dv=0)]]},
                             d4={"args": [["l", DS(2)], ["r", DS(3)]]}),
    "overload": directed.prog(DS(1), d1={"args": [["a", O("A", dk="const", dv=0)]], "dispatch": "D", "overloads": [["x", {"args": [["b", O("B", dk="const", dv=1)]]}], ["y", {"expr": O("A", dk="const", dv="ya")}],
                                                                                                                    # (aliases need only be hashable: mixed types cannot be ordered)
                                                                                                                    [3, {"expr": O("B", dk="const", dv="three")}], [None, {"expr": O("A", dk="const", dv="none-alias")}]]}),
    "cached-node": directed.prog({"k": "cached", "spec": {"k": "tuple", "items": [O("A", dk="const", dv=0), DS(1)]}}, d1={"args": [["b", O("B", dk="const", dv=0)]]}),
    # evaluations that cannot be built for some dictionaries: a lying exists() must not turn a fall-back into a failure
    "fallback": directed.prog(DS(2), d1={"args": [["a", O("A")]]},
                              d2={"args": [["v", {"k": "coalesce", "members": [DS(1), O("B", dk="const", dv="fb")]}],
                                           ["w", {"k": "switch", "disp": DS(1), "table": [], "default": O("C", dk="const", dv="sw-default")}]], "cache": "nocache"}),
    "required": directed.prog({"k": "coalesce", "members": [DS(2), {"k": "const", "v": "none"}]}, d1={"args": [["a", O("A")]]}, d2={"args": [["x", DS(1)], ["b", O("B")]]}),
}
FAILING = ("fallback", "required")
HISTORIES = [
    [{"A": 1}, {"A": 1}, {"A": 2}, {"A": 1}],
    [{}, {"A": 1, "B": 2}, {}, {"A": 1, "B": 2}, {"B": 2}],
    [{"D": "x"}, {"D": "y"}, {"D": "x", "B": 5}, {"D": 3}, {"D": "z"}, {"D": None}],
    [{"B": 5}, {"A": 1}, {"B": 5}, {}, {"A": 1, "B": 2}, {"B": 5}],
    [{"A": 1, "AB": 1}, {"A": 1, "AB": 2}, {"A": 1, "AB": 1, "L": list(range(11))}, {"A": 1, "AB": 1, "L": list(range(10)) + ["ten"]}, {"A": 2, "AB": 2}, {"A": 1, "AB": 2}],
]


def run_script(ctx, gname, program, history, actions, own_exists):
    script = Script(actions)
    def factory(kind):
        if own_exists == "derived":
            return FaultyMemoryCache(script)
        if own_exists == "delegating":
            return DelegatingCache(FaultyCache(script, True))
        return FaultyCache(script, own_exists)

    G = build(program, cache_factory=factory)
    clean = build(program)
    evals = {}
    W = {"graph": gname, "script": list(actions), "own_exists": own_exists, "history": history}
    ctx.count("scripts")
    for step, o in enumerate(history):
        exp = observe(clean.root.evaluate, copy.deepcopy(o))
        if step and (step + len(actions)) % 2 == 0:
            # a caller that asks validate() about the previous (by now stored) options between two evaluations: a
            # look-up that is not followed by a retrieval; whatever it answers, it may leave nothing behind
            observe(G.root.validate, copy.deepcopy(history[step - 1]))
            ctx.count("validate_between_evaluations")
        mark = G.log.mark()
        got = observe(G.root.evaluate, copy.deepcopy(o))
        ctx.evaluations += 1
        ctx.count("evaluations_compared")
        if got != exp:
            ctx.violation("faulty-backend-changes-outcome",
                          f"{gname} step {step} with script {actions} (own exists={own_exists}): got {short(got)}, a reliable backend gives {short(exp)}",
                          {**W, "step": step, "executed": script.executed})
            return
        bodies = [e[2] for e in G.log.since(mark, ("body",))]
        for pid in set(bodies):
            # within one evaluation a dataset is evaluated at most once per consumer request; consumers <= 3 in the
            # always-succeeding graphs; in the fall-back graphs the dataset is also a switch dispatch / coalesce member,
            # which validate(), keys() and evaluate() of the enclosing uncached dataset each evaluate again
            if bodies.count(pid) > (12 if gname in FAILING else 3):
                ctx.violation("unbounded-recomputation", f"{gname} step {step}: body {pid} ran {bodies.count(pid)} times in one evaluation", {**W, "step": step})
                return
    faulty = [(m, a) for m, a in script.executed if a != "behave"]
    ctx.count("faulty_actions_executed", len(faulty))
    for m, a in faulty:
        ctx.cover("actions_executed", a)
        ctx.cover("methods_faulted", m)
    if faulty:
        ctx.nontrivial(spec_hash([gname, actions, own_exists, history]))
        ctx.sample({"graph": gname, "script": list(actions), "own_exists": own_exists, "executed": script.executed[:12]}, limit=3)


def known_finding_reproducer(ctx):
    """Recorded finding (reported by a round-11 sub-agent, reproduced): a backend that claims an entry exists makes
    Cached.validate() skip the validation of a dataset whose value would be rejected (option outside its domain); a
    coalesce around it then believes the member usable, keys() the consumer by that member alone, falls through to the
    next member at evaluation - and the consumer's own, reliable store returns that value for the next dictionary.
    Attributed to the finding only if the same history with an honest exists() is correct."""
    from labrea import Coalesce, Option, dataset

    def history(lying):
        class Backend(Cache):
            def __init__(self):
                self.store = MemoryCache()

            def exists(self, e, o):
                return True if lying else self.store.exists(e, o)

            def get(self, e, o):
                return self.store.get(e, o)

            def set(self, e, o, v):
                self.store.set(e, o, v)

        def inner(a=Option("A", domain=[1, 2])):
            return ("inner", a)

        inner_ds = dataset(inner, cache=Backend())

        def outer(x=Coalesce(inner_ds, Option("B"))):
            return x

        outer_ds = dataset(outer)
        return [observe(outer_ds.evaluate, o) for o in ({"A": 3, "B": 1}, {"A": 3, "B": 2}, {"A": 1, "B": 2}, {"A": 3, "B": 1})]

    want = [("ok", ("i", 1)), ("ok", ("i", 2)), ("ok", ("T", (("s", "inner"), ("i", 1)))), ("ok", ("i", 1))]
    lying, honest = history(True), history(False)
    ctx.evaluations += 8
    if lying != want:
        ctx.violation("faulty-backend-changes-outcome", f"coalesce(dataset behind a backend whose exists() always says yes, Option('B')) under a cached consumer: {lying}, expected {want}",
                      {"family": "known-finding", "mechanism": "lying-exists-hides-invalid-coalesce-member" if honest == want else None})


def run(ctx):
    if ctx.shard == 0:
        known_finding_reproducer(ctx)
    N = 4 if ctx.quick else 6
    combos = list(itertools.product(ACTIONS, repeat=N))
    jobs = []
    for gname, program in GRAPHS.items():
        for h, hist in enumerate(HISTORIES):
            if (h == 2) != (gname == "overload") or (h == 3) != (gname in FAILING) or (h == 4) != (gname == "prefix-named"):
                continue
            for own in (False, True) + (("derived",) if gname in ("single", "chain") else ()) + (("delegating",) if gname in ("chain", "callables") else ()):
                jobs.append((gname, program, hist, own))
    k = 0
    for gname, program, hist, own in jobs:
        for actions in combos:
            k += 1
            if k % ctx.shards != ctx.shard:
                continue
            if not ctx.quick and gname not in ("single", "diamond") and k % 3:
                continue  # thorough: full 5^6 on two graphs, a third of it on the others
            run_script(ctx, gname, program, hist, actions, own)
    # backends that stay faulty
    k = 0
    for gname, program in GRAPHS.items():
        hist = HISTORIES[2] if gname == "overload" else HISTORIES[3] if gname in FAILING else HISTORIES[4] if gname == "prefix-named" else HISTORIES[1]
        for mode in ("unreadable", "blind", "amnesic"):
            for after in range(0, 13):
                for own in (True, False):
                    k += 1
                    if k % ctx.shards == ctx.shard:
                        run_persistent(ctx, gname, program, hist + hist, mode, after, own)
    # random longer scripts
    for i in range(ctx.n(1200, 40000)):
        r = case_rng(ctx, i)
        gname = r.choice(list(GRAPHS))
        hist = HISTORIES[2] if gname == "overload" else HISTORIES[3] if gname in FAILING else HISTORIES[4] if gname == "prefix-named" else r.choice(HISTORIES[:2])
        actions = [r.choice(ACTIONS) if r.random() < 0.5 else "behave" for _ in range(r.choice([8, 16, 40]))]
        run_script(ctx, gname, GRAPHS[gname], hist, actions, r.choice([True, False, "derived", "delegating"]))


def replay(ctx, rep):
    w = rep["witness"]
    if w.get("family") == "known-finding":
        known_finding_reproducer(ctx)
        return
    if w.get("family") == "persistent":
        run_persistent(ctx, w["graph"], GRAPHS[w["graph"]], w["history"], w["mode"], w["after"], w["own_exists"])
        return
    run_script(ctx, w["graph"], GRAPHS[w["graph"]], w["history"], w["script"], w["own_exists"])
