"""C16 — feature switches change side behaviour only, never values.

Monitors per evaluation: value, probe counters (bodies / effects), LogRequests
(request tap), records emitted through the logging module (a Handler installed
by the harness), backend calls and store snapshot of a recording cache backend.
"""
import copy
import itertools
import logging

from .. import boot  # noqa: F401
import labrea.cache
import labrea.logging
from labrea.cache import Cache, CacheGetFailure
from labrea.logging import Logged

from .. import directed
from .. import universe as U
from ..build import build
from ..cases import case_rng, program_for
from ..gen import mentioned_keys, spec_hash
from ..outcome import canon, observe, short
from ..ref import Ref, kinds_of
from ..tap import Tap

PROPERTY = "C16"
LEVEL = "exploration"
CACHE_MODES = ["on", "opt-DISABLED", "opt-DISABLE", "context"]
EFFECT_MODES = ["on", "option", "toggle"]
LOG_MODES = ["on", "option", "context"]
RULE = (
    "case = (dataset graph, history) on one long-lived instance whose cache backend records every call; each step "
    "picks independently a cache mode {on, LABREA.CACHE.DISABLED, LABREA.CACHE.DISABLE, cache.disabled() context}, an "
    "effects mode {on, LABREA.EFFECTS.DISABLED, per-dataset disable_effects()} and a logging mode {on, "
    "LABREA.LOGGING.DISABLED, logging.disabled() context} (full 4x3x3 cross product per graph, plus all-nocache "
    "graphs); value must equal the all-off value; cache off => bodies == memo-free reference run list, zero backend "
    "calls, store unchanged; effects off => zero effect calls; logging off => zero emitted records, else emitted INFO "
    "records == LogRequests == evaluations of datasets not served from cache.  distinct = sha1(graph, history, "
    "modes); non-trivial = at least one switch is on in a step that follows a step which filled the cache."
)
ASSUMPTIONS = ["contradictory spellings (DISABLED false with DISABLE true) are not generated", "AllOptions is excluded (it would expose the switch keys as values)"]
FLOORS = {"steps": (5000, 60000), "cache_off_steps": (2500, 30000), "effects_off_steps": (2000, 25000), "logging_off_steps": (2000, 25000),
          "log_records_matched": (2500, 40000), "nocache_graph_steps": (200, 4000), "logging_context_outside_cache_context": (100, 1500),
          "log_effect_steps": (1400, 20000), "log_effect_records_matched": (100, 1500), "cache_on_shadow_steps": (700, 10000), "cache_off_run_lists_compared": (800, 10000)}
COVER = {"mode_combinations": [f"{c}/{e}/{l}" for c in CACHE_MODES for e in EFFECT_MODES for l in LOG_MODES]}
SHARDS_QUICK = 4
FEATURES = {"allopts": False, "domains": False, "preset_templates": False}


class RecordingCache(Cache):
    def __init__(self, stats):
        self.store = {}
        self.stats = stats

    def get(self, evaluatable, options):
        self.stats["calls"] += 1
        try:
            return self.store[evaluatable.fingerprint(options)]
        except KeyError as e:
            raise CacheGetFailure(evaluatable, options, self) from e

    def set(self, evaluatable, options, value):
        self.stats["calls"] += 1
        self.store[evaluatable.fingerprint(options)] = value

    def exists(self, evaluatable, options):
        self.stats["calls"] += 1
        return evaluatable.fingerprint(options) in self.store


class Capture(logging.Handler):
    def __init__(self):
        super().__init__(level=logging.DEBUG)
        self.records = []

    def emit(self, record):
        if str(record.getMessage()).startswith("Labrea: Evaluating"):
            self.records.append(record)


def with_switches(o, cache, effects, log):
    o = copy.deepcopy(o)
    if cache == "opt-DISABLED":
        o = U.set_path(o, "LABREA.CACHE.DISABLED", True)
    elif cache == "opt-DISABLE":
        o = U.set_path(o, "LABREA.CACHE.DISABLE", True)
    if effects == "option":
        o = U.set_path(o, "LABREA.EFFECTS.DISABLED", True)
    if log == "option":
        o = U.set_path(o, "LABREA.LOGGING.DISABLED", True)
    return o


def run_history(ctx, program, history, modes, tag, nocache_graph=False):
    stats = {"calls": 0}
    caches = []

    def factory(kind):
        c = RecordingCache(stats)
        caches.append(c)
        return c

    if nocache_graph:
        program = copy.deepcopy(program)
        for d in program["datasets"].values():
            d["cache"] = "nocache"
        G = build(program)
    else:
        G = build(program, cache_factory=factory)
    log = G.log
    cap = Capture()
    root_logger = logging.getLogger()
    old_level = root_logger.level
    root_logger.addHandler(cap)
    root_logger.setLevel(logging.INFO)
    tapstate = {"logreq": 0, "logged_eval": 0, "hits": 0, "computed": 0}
    stored_by_ds = {}

    def on_event(phase, kind, request, stack, result):
        if phase == "call" and kind == "log":
            tapstate["logreq"] += 1
        elif phase == "call" and kind == "evaluate" and isinstance(request.evaluatable, Logged):
            tapstate["logged_eval"] += 1
        if phase == "call" and kind == "cache_set":
            for label, c in G.caches:
                if request.cache is c and label.startswith("ds"):
                    stored_by_ds[label[2:].split("/")[0] if "/" not in label else label[2:]] = stored_by_ds.get(label[2:], 0) + 1
                    break
        if kind in ("cache_exists", "cache_get") and any(request.cache is c for label, c in G.caches if label.startswith("ds")):
            # dataset evaluations not served from the cache = lookups - successful retrievals (failed ones count too)
            # (only lookups made by an evaluation: validate() also asks whether a value exists)
            under_eval = len(stack) >= (2 if phase == "call" else 1) and stack[-2 if phase == "call" else -1][0] == "evaluate"
            if phase == "return" and kind == "cache_exists" and under_eval:  # (a lookup that raises computes nothing)
                tapstate["computed"] += 1
            elif phase == "return" and kind == "cache_get" and under_eval:
                tapstate["computed"] -= 1

    warm = False
    try:
        for step, (o, (cm, em, lm)) in enumerate(zip(history, modes)):
            o2 = with_switches(o, cm, em, lm)
            W = {"program": program, "history": history[: step + 1], "modes": [list(m) for m in modes[: step + 1]], "source": tag, "nocache_graph": nocache_graph}
            # the all-off value: fresh instance, no switches
            exp = observe(build(program).root.evaluate, copy.deepcopy(o))
            mark = log.mark()
            calls0 = stats["calls"]
            store0 = [dict(c.store) for c in caches]
            n_rec = len(cap.records)
            for k in tapstate:
                tapstate[k] = 0
            stored_by_ds.clear()
            if em == "toggle":
                for ds in list(G.ds_objs.values()) + list(G.derived.values()) + list(G.overload_ds.values()):
                    # the toggle is a state, not a counter: redundant calls change nothing
                    if step % 3 == 0:
                        ds.enable_effects()
                    ds.disable_effects()
                    if step % 3 == 1:
                        ds.disable_effects()
            ctxs = []
            try:
                # each context derives from the runtime current when it is created: create and enter one by one
                makers = []
                if cm == "context":
                    makers.append(labrea.cache.disabled)
                if lm == "context":
                    makers.append(labrea.logging.disabled)
                if len(makers) == 2 and (step + len(history)) % 2:
                    makers.reverse()  # logging context outside, cache context inside
                    ctx.count("logging_context_outside_cache_context")
                for mk in makers:
                    ctxs.append(mk())
                    ctxs[-1].__enter__()
                    if (step + len(makers)) % 2 == 0:
                        # a helper that used the very same context object inside the caller's block and has returned
                        # (re-entering a runtime object is supported): the caller's block is still open afterwards
                        ctxs[-1].__enter__()
                        ctxs[-1].__exit__(None, None, None)
                        ctx.count("reentered_switch_contexts")
                with Tap(on_event=on_event, keep=False):
                    got = observe(G.root.evaluate, o2)
            finally:
                for c in reversed(ctxs):
                    c.__exit__(None, None, None)
                if em == "toggle":
                    for ds in list(G.ds_objs.values()) + list(G.derived.values()) + list(G.overload_ds.values()):
                        ds.enable_effects()
            ctx.evaluations += 1
            ctx.count("steps")
            if nocache_graph:
                ctx.count("nocache_graph_steps")
            ctx.cover("mode_combinations", f"{cm}/{em}/{lm}")
            ev = log.since(mark)
            bodies = sorted(e[2] for e in ev if e[1] == "body")
            effects = [e for e in ev if e[1] == "effect"]
            emitted = cap.records[n_rec:]
            if got != exp and not (got[0] == "err" and exp[0] == "err"):
                ctx.violation("switch-changes-value", f"step {step} modes {cm}/{em}/{lm}: {short(got)} but with all switches off {short(exp)}", W)
                return
            if cm != "on" or nocache_graph:
                ctx.count("cache_off_steps")
            if cm != "on":
                # with caching disabled a warm instance must run exactly the bodies a brand-new instance runs
                # under the same switches (nothing is read from the entries stored earlier)
                fresh = build(program)
                fctx = []
                try:
                    if cm == "context":
                        fctx.append(labrea.cache.disabled())
                        fctx[-1].__enter__()
                    fgot = observe(fresh.root.evaluate, copy.deepcopy(o2))
                finally:
                    for c in reversed(fctx):
                        c.__exit__(None, None, None)
                exp_bodies = sorted(e[2] for e in fresh.log.events if e[1] == "body")
                if bodies != exp_bodies:
                    ctx.violation("cache-off-does-not-recompute", f"step {step} cache mode {cm}: warm instance ran {bodies} but a brand-new instance with caching off runs {exp_bodies}", W)
                    return
                r = Ref(program)
                r.run(o2)
                ref_bodies = sorted(p for k, p, _ in r.ran if k == "body")
                if ref_bodies != bodies:
                    ctx.count("differs_from_memo_free_reference_run_list")
                # with caching off nothing is remembered, not even inside one evaluation: every use of a dataset runs
                # its body, as often as the memo-free reference says (instantiating a dataset class also computes its keys(); a coalesce validates its members first, which
                # runs selectors once more and spares the sources of members that cannot be evaluated: not compared)
                if got[0] == "ok" and exp[0] == "ok" and not ({"coalesce", "dc"} & kinds_of(program)):
                    ctx.count("cache_off_run_lists_compared")
                    if ref_bodies != bodies:
                        ctx.violation("cache-off-does-not-recompute", f"step {step} cache mode {cm}: bodies ran {bodies}; without any memory every use recomputes: {ref_bodies}", W)
                        return
                if cm != "on" and not nocache_graph:
                    if stats["calls"] != calls0:
                        ctx.violation("cache-off-touches-backend", f"step {step} cache mode {cm}: {stats['calls'] - calls0} backend calls", W)
                        return
                    if [dict(c.store) for c in caches[: len(store0)]] != store0:
                        ctx.violation("cache-off-changes-store", f"step {step} cache mode {cm}: stored entries changed", W)
                        return
            if em == "on":
                # effects on: every computed (not served-from-cache) value of a dataset fires each of its effects once
                expected_effects = sum(n_ * len(program["datasets"][d_].get("effects", [])) for d_, n_ in stored_by_ds.items() if d_ in program["datasets"])
                ctx.count("effects_on_steps")
                if len(effects) != expected_effects:
                    ctx.violation("effects-on-but-count-wrong", f"step {step}: {len(effects)} effect calls, {expected_effects} expected from the datasets that were computed {dict(stored_by_ds)}", W)
                    return
            if em != "on":
                ctx.count("effects_off_steps")
                if effects:
                    ctx.violation("effects-off-but-ran", f"step {step} effects mode {em}: {[(e[2]) for e in effects][:5]} ran", W)
                    return
            if lm != "on":
                ctx.count("logging_off_steps")
                if emitted:
                    ctx.violation("logging-off-but-emitted", f"step {step} logging mode {lm}: {len(emitted)} records emitted", W)
                    return
            else:
                ctx.count("log_records_matched", len(emitted))
                if tapstate["logreq"] != tapstate["computed"]:
                    ctx.violation("log-count", f"step {step}: {tapstate['logreq']} LogRequests but {tapstate['computed']} dataset values were computed (not served from cache)", W)
                    return
                if len(emitted) != tapstate["logreq"] or tapstate["logreq"] != tapstate["logged_eval"]:
                    ctx.violation("log-count", f"step {step}: emitted {len(emitted)} INFO records, {tapstate['logreq']} LogRequests, {tapstate['logged_eval']} dataset evaluations not served from cache", W)
                    return
                if any(rec.levelno != logging.INFO for rec in emitted):
                    ctx.violation("log-level", f"step {step}: records not at INFO level", W)
                    return
            if warm and (cm != "on" or em != "on" or lm != "on"):
                ctx.nontrivial(spec_hash([program, history[: step + 1], modes[: step + 1], nocache_graph]))
            if cm == "on" and got[0] == "ok":
                warm = True
        ctx.sample({"program": program, "history": history[:2], "modes": [list(m) for m in modes[:4]]}, limit=2)
    finally:
        root_logger.removeHandler(cap)
        root_logger.setLevel(old_level)


ALL_MODES = list(itertools.product(CACHE_MODES, EFFECT_MODES, LOG_MODES))


def modes_for(r, n, cross=False):
    if cross:
        ms = ALL_MODES[:]
        r.shuffle(ms)
        out = []
        for m in ms:
            out.append(("on", "on", "on"))  # warm the cache, then flip switches
            out.append(m)
        return out
    return [r.choice(ALL_MODES) if r.random() < 0.7 else ("on", "on", "on") for _ in range(n)]


def log_effect_family(ctx, r, case):
    """Datasets whose effects emit log records themselves (LogEffect given at definition / added later, next to a plain
    callback effect) over the full cross product of switches on one long-lived instance: the value never changes; the
    effect's records appear once per body run when effects and logging are on, never when either is off; with logging
    off nothing at all reaches the logging module."""
    import labrea.logging as LL
    from labrea import Option, dataset

    records, runs, plain = [], [0], []

    class H(logging.Handler):
        def emit(self, record):
            records.append((record.levelno, record.name, record.getMessage()))

    def body(a=Option("A", 0), b=Option("S.X", "sx")):
        runs[0] += 1
        return ("v", a, b)

    kind = r.choice(["memory", "nocache"])
    late = r.random() < 0.5
    eff = LL.LogEffect(logging.WARNING, "lvf.effect", "effect-record")
    deco = dataset.nocache if kind == "nocache" else dataset
    d = deco(body, effects=[plain.append] if late else [eff, plain.append], callback=(lambda v: ("cb", v)))
    if late:
        d.add_effects(eff)
    top = dataset.nocache(lambda x=d, c=Option("C", 0): (x, c))
    h = H()
    root = logging.getLogger()
    old = root.level
    root.addHandler(h)
    root.setLevel(logging.DEBUG)
    modes = ALL_MODES[:]
    r.shuffle(modes)
    pool = [{}, {"A": 1}, {"A": 1, "C": 2}, {"S": {"X": 1}}, {"A": 2, "N1": 0}]
    W = {"family": "log-effect", "case": case, "shard": ctx.shard, "shards": ctx.shards}
    try:
        for step, (cm, em, lm) in enumerate(modes):
            o = r.choice(pool)
            exp = (("cb", ("v", o.get("A", 0), o.get("S", {}).get("X", "sx"))), o.get("C", 0))
            o2 = with_switches(o, cm, em, lm)
            del records[:]
            del plain[:]
            before = runs[0]
            if em == "toggle":
                d.disable_effects()
            ctxs = []
            try:
                for mk in ([labrea.cache.disabled] if cm == "context" else []) + ([labrea.logging.disabled] if lm == "context" else []):
                    ctxs.append(mk())
                    ctxs[-1].__enter__()
                got = observe(top.evaluate, o2)
            finally:
                for c in reversed(ctxs):
                    c.__exit__(None, None, None)
                if em == "toggle":
                    d.enable_effects()
            ctx.evaluations += 1
            ctx.count("log_effect_steps")
            k = runs[0] - before
            mine = [x for x in records if x[1] == "lvf.effect"]
            Ws = {**W, "step": step, "modes": [cm, em, lm], "options": o}
            if got != ("ok", canon(exp)):
                ctx.violation("switch-changes-value", f"log-effect dataset, modes {cm}/{em}/{lm}: {short(got)} expected {short(canon(exp))}", Ws)
                return
            if lm != "on" and records:
                ctx.violation("logging-off-but-emitted", f"modes {cm}/{em}/{lm}: {records[:3]} reached the logging module", Ws)
                return
            want = k if (em == "on" and lm == "on") else 0
            if len(mine) != want or len(plain) != (k if em == "on" else 0):
                ctx.violation("effect-log-count", f"modes {cm}/{em}/{lm}, {k} body run(s): {len(mine)} records from the LogEffect (expected {want}), plain effect called {len(plain)} time(s)", Ws)
                return
            if cm != "on" and k != 1 and kind == "memory":
                ctx.violation("cache-off-does-not-recompute", f"modes {cm}/{em}/{lm}: body ran {k} times with caching off", Ws)
                return
            if want:
                ctx.count("log_effect_records_matched", want)
            ctx.nontrivial(spec_hash(["log-effect", case, step, cm, em, lm]))
        # caching left ON throughout: switching effects / logging off and on again changes nothing but the effects and
        # the records - in particular not WHEN the body runs.  A shadow instance gets the same dictionaries without any
        # switch; body runs must coincide step by step (the effect reads an option of its own that is present).
        from labrea import pipeline_step

        def make():
            n = [0]

            def body2(a=Option("A", 0)):
                n[0] += 1
                return ("v2", a)

            @pipeline_step
            def audit(value, channel=Option("CHANNEL", "c"), limit=Option("S.X", 1)):
                return None

            d2 = dataset(body2, effects=[audit])
            return d2, n

        (dA, nA), (dB, nB) = make(), make()
        pool2 = [{"A": 1, "CHANNEL": "x"}, {"A": 1, "CHANNEL": "y"}, {"A": 2, "CHANNEL": "x", "S": {"X": 3}}, {"A": 1}]
        side = [(em, lm) for em in EFFECT_MODES for lm in LOG_MODES] * 2
        r.shuffle(side)
        for step, (em, lm) in enumerate(side):
            o = r.choice(pool2)
            a0, b0 = nA[0], nB[0]
            if em == "toggle":
                dA.disable_effects()
            ctxs = []
            try:
                if lm == "context":
                    ctxs.append(labrea.logging.disabled())
                    ctxs[-1].__enter__()
                got = observe(dA.evaluate, with_switches(o, "on", em, lm))
            finally:
                for c in reversed(ctxs):
                    c.__exit__(None, None, None)
                if em == "toggle":
                    dA.enable_effects()
            exp = observe(dB.evaluate, copy.deepcopy(o))
            ctx.evaluations += 2
            ctx.count("cache_on_shadow_steps")
            if got != exp or (nA[0] - a0) != (nB[0] - b0):
                ctx.violation("switch-changes-when-the-body-runs", f"caching on, effects {em}, logging {lm}, step {step} on {short(o)}: value {short(got)} / body ran {nA[0] - a0} time(s); "
                              f"the same history with all switches off: {short(exp)} / {nB[0] - b0} time(s)", {**W, "step": step, "modes": ["on", em, lm], "options": o, "pass": "cache-on-shadow"})
                return
    finally:
        root.removeHandler(h)
        root.setLevel(old)


def run(ctx):
    for i in range(ctx.n(40, 600)):
        log_effect_family(ctx, case_rng(ctx, ("logeffect", i)), i)
    rng = ctx.rng
    progs = [p for p in directed.programs() if p["datasets"] and p["name"] not in ("allopts",)]
    for i, p in enumerate(progs):
        if i % ctx.shards != ctx.shard:
            continue
        name = p.pop("name")
        if "*" in Ref(p).may_read(p["root"]):
            continue
        modes = modes_for(rng, 0, cross=True)
        base = [{"A": 1, "B": "b", "D": "x", "S": {"X": 1, "Y": 2}, "L": [1, 2], "C": 3, "E": "y"}, {"A": 2, "D": "y"}]
        hist = [base[(j // 2) % 2] for j in range(len(modes))]
        run_history(ctx, p, hist, modes, f"directed:{name}")
        if i % 4 == 0:
            run_history(ctx, p, hist[:12], modes[:12], f"directed:{name}", nocache_graph=True)
        if True:
            # dictionaries that differ only in options reached THROUGH the values of the options the program reads
            # (references to names that are not identifiers, to the last list element)
            via = [{"A": "{K-1}", "K-1": 1, "B": "p{K 2}q", "K 2": "s", "C": "{L.-1}", "L": [0, 5], "D": "x", "S": {"X": "{K-1}", "Y": 2}, "E": "y"},
                   {"A": "{K-1}", "K-1": 2, "B": "p{K 2}q", "K 2": "t", "C": "{L.-1}", "L": [0, 6], "D": "x", "S": {"X": "{K-1}", "Y": 2}, "E": "y"}]
            # ... and a dictionary that differs from the first ONLY in a member of a section whose other member is
            # read by name (S.Y next to S.X): whoever reads the whole section sees the difference
            via.append({**copy.deepcopy(via[0]), "S": {"X": "{K-1}", "Y": 9}})
            ctx.count("transitive_reference_histories")
            run_history(ctx, p, [via[(j // 2) % 3] for j in range(12)], modes[:12], f"directed:{name}:via")
    n = ctx.n(1200, 16000)
    for i in range(n):
        r = case_rng(ctx, i)
        program = program_for(r, r.choice([1, 2, 3]), features=FEATURES, n_datasets=r.choice([1, 2, 3, 4]))
        ids = list(program["datasets"])
        program["root"] = {"k": "tuple", "items": [{"k": "ds", "id": ids[-1]}, program["root"]]}
        for d in program["datasets"].values():
            if r.random() < 0.5:
                d["effects"] = ["e"]
        keys = sorted(mentioned_keys(program)) or None
        hist = U.history(r, 6, keys, templated=0.05, closed_only=True)
        run_history(ctx, program, hist, modes_for(r, len(hist)), "random", nocache_graph=r.random() < 0.12)


def replay(ctx, rep):
    w = rep["witness"]
    if w.get("family") == "log-effect":
        ctx.shard, ctx.shards = w.get("shard", 0), w.get("shards", 1)
        log_effect_family(ctx, case_rng(ctx, ("logeffect", w["case"])), w["case"])
        return
    run_history(ctx, w["program"], w["history"], [tuple(m) for m in w["modes"]], "replay", nocache_graph=w.get("nocache_graph", False))
