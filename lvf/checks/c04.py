"""C04 — Option resolution: present key wins (even falsy), else default, else error;
domains, namespaces and Option.set.

Oracle: the reference interpreter's independent lookup / substitution
(lvf.universe) for single Options; fully-qualified Options (real-vs-real) for
namespace members; leaf-wise comparison + snapshots for Option.set.
"""
import copy
import itertools
import warnings

from .. import boot  # noqa: F401
import labrea.cache
from labrea import Option

from .. import universe as U
from ..build import build
from ..cases import case_rng
from ..gen import spec_hash
from ..outcome import canon, observe, short
from ..ref import Ref
from .c08 import idmap

PROPERTY = "C04"
LEVEL = "exploration"
RULE = (
    "(1) bounded-exhaustive: key in a nested universe (sections, list indices, prefix keys, too-deep keys) x stored "
    "value (every falsy value, containers, templated strings) x default form (none/const/template/factory/chained "
    "Option/dataset) x domain (none/container/predicate/evaluatable) x surrounding dictionary, real Option vs "
    "independent lookup; (2) random nested namespaces (implicit, renamed, auto, inherited) vs fully-qualified "
    "Options on evaluate/validate/keys/explain; (3) Option.set on random dictionaries with non-mapping values. "
    "distinct = sha1(case); non-trivial = key present with a falsy/templated value, or absent with a default, or a "
    "domain decided the outcome, or a namespace member carries default/domain, or set() changed an existing leaf."
)
ASSUMPTIONS = ["integer-like dict keys are excluded (confectioner treats '0' as a list index)"]
FLOORS = {"option_cases": (15000, 60000), "present_falsy": (3000, 12000), "absent_default": (2500, 2500),
          "domain_decided": (500, 1500), "option_history_steps": (5000, 20000), "namespace_member_checks": (1500, 30000), "set_cases": (1500, 30000), "string_default_cases": (650, 650), "transported_option_checks": (4000, 4000)}
SHARDS_QUICK = 4

KEYS = ["A", "S", "S.X", "S.Y", "T.X", "L", "L.0", "L.1", "L.2", "S.X.Z", "L.-1", "K-1"]  # (L.-1: the last element; K-1: not an identifier)
STORED = U.SCALARS + [[], [1], [0, "a"], {}, {"X": 1}, "{B}", "x{B}y", "{S.Y}", "{T.X}{B}", "{Q}", ["{B}", 1], {"K": "{B}"}]
DEFAULTS = [
    ("none", None), ("const", 0), ("const", None), ("const", ""), ("const", [1]), ("const", "dflt"), ("const", []), ("const", {}), ("const", [[], {"k": []}]),
    # equal-looking scalar constants of different types (0 / 0.0 / False, 1 / 1.0 / True, -0.0): each option yields ITS constant
    ("const", 0.0), ("const", False), ("const", 1), ("const", 1.0), ("const", True), ("const", -0.0),
    ("tmpl", "{B}"), ("tmpl", "t{S.Y}"), ("factory", False), ("factory", {"X": 2}),
    ("spec", {"k": "opt", "key": "B", "dk": "spec", "dv": {"k": "opt", "key": "C", "dk": "const", "dv": "chain-end"}}),
    ("spec", {"k": "ds", "id": "1"}),
]
DOMAINS = [None, ["container", [0, 1, "a", None, False, ""]], ["container", []], ["pred", "truthy"], ["pred", "is_str"],
           ["spec", {"k": "opt", "key": "C", "dk": "const", "dv": [0, 1, "a"]}]]
BASES = [{}, {"B": "b"}, {"B": 0, "C": [0, "dflt", None], "S": {"Y": "sy"}}, {"B": "{C}", "C": "c", "T": {"X": "tx"}, "S": {"X": 1, "Y": 2}, "L": [7, 8]}]
DATASETS = {"1": {"args": [["b", {"k": "opt", "key": "B", "dk": "const", "dv": "nb"}]]}}


def place(base, key, value):
    """Dictionary in which `key` holds `value` (lists are rewritten as a whole)."""
    parts = key.split(".")
    if parts[0] == "L" and len(parts) == 2:
        lst = list(base.get("L", []))
        idx = int(parts[1])
        while len(lst) <= idx or (idx < 0 and len(lst) < -idx):
            lst.append("pad")
        lst[idx] = copy.deepcopy(value)
        return U.set_path(base, "L", lst)
    if key == "S.X.Z":
        return U.set_path(base, "S.X", {"Z": copy.deepcopy(value)})
    return U.set_path(base, key, value)


def option_case(ctx, key, dk, dv, dom, o, note):
    spec = {"k": "opt", "key": key, "n": 1}
    if dk != "none":
        spec["dk"], spec["dv"] = dk, dv
    if dom:
        spec["dom"] = dom
    program = {"datasets": DATASETS, "root": spec}
    G = build(program)
    ref = Ref(program)
    try:
        exp = ref.run(o)
    except RecursionError:
        return
    o_in = copy.deepcopy(o)
    ids = idmap(o)
    with labrea.cache.disabled():
        got = observe(G.root.evaluate, o)
    ctx.evaluations += 1
    ctx.count("option_cases")
    W = {"program": program, "options": o, "real": repr(got), "ref": repr(exp), "note": note}
    if o != o_in or idmap(o) != ids:
        ctx.violation("input-mutated", "Option.evaluate changed the caller's dictionary", W)
        return
    ok = got[0] == exp[0] and (got[1] == exp[1])
    if ok and got[0] == "err" and got[1] == "KeyNotFoundError":
        cands = ref_candidates(program, o)
        ok = got[2] in cands
        if not ok:
            W["expected_keys"] = sorted(cands)
    if not ok:
        W["mechanism"] = mechanism(key, o, got, program)
        ctx.violation("option-vs-lookup", f"Option({key!r}, default={dk}:{dv!r}, domain={dom}) on {short(o)}: real {short(got)} / independent lookup {short(exp)}", W)
        return
    raw = U.lookup(key, o)
    if got[0] == "ok" and dom:
        ctx.count("domain_passed")
    if exp[0] == "err" and exp[1] in ("ValueError",):
        ctx.count("domain_decided")
    nontrivial = False
    if raw is not U.ABSENT:
        if not raw or U.contains_template(raw):
            ctx.count("present_falsy")
            nontrivial = True
    elif dk != "none":
        ctx.count("absent_default")
        nontrivial = True
    # validate and keys agree with evaluate about success (default inside its domain)
    with labrea.cache.disabled():
        v = observe(G.root.validate, copy.deepcopy(o))
        k = observe(G.root.keys, copy.deepcopy(o))
    ctx.evaluations += 2
    # a value outside its declared domain is outside the premise of validate/keys agreement (C10)
    domain_failure = exp[0] == "err" and exp[1] in ("ValueError", "TypeError")
    default_checked = raw is U.ABSENT and dom  # validate does not apply the domain to defaults
    if not default_checked and not domain_failure:
        if (v[0] == "ok") != (got[0] == "ok") or (k[0] == "ok") != (got[0] == "ok"):
            W["mechanism"] = mechanism(key, o, got, program)
            ctx.violation("option-validate-keys-disagree", f"evaluate {short(got)} validate {short(v)} keys {short(k)}", W)
            return
    if nontrivial:
        ctx.nontrivial(spec_hash([spec, o]))
        ctx.sample({"option": spec, "options": o, "outcome": short(got, 100)}, limit=3)


def option_history(ctx, key, dk, dv, dom, r):
    """One long-lived Option object evaluated / validated over a history of dictionaries (a result must never
    depend on what the same object was asked before)."""
    spec = {"k": "opt", "key": key, "n": 1}
    if dk != "none":
        spec["dk"], spec["dv"] = dk, dv
    if dom:
        spec["dom"] = dom
    program = {"datasets": DATASETS, "root": spec}
    G = build(program)
    hist = []
    for _ in range(6):
        o = copy.deepcopy(r.choice(BASES))
        if r.random() < 0.6:
            o = place(o, key, r.choice(STORED))
        if r.random() < 0.5:
            o["C"] = r.choice([[0, 1, "a"], [7, 8], ["dflt", 0, None, ""], "c", [None, False, ""]])
        elif r.random() < 0.5:
            o.pop("C", None)
        hist.append(o)
    for step, o in enumerate(hist):
        try:
            exp = Ref(program).run(o)
        except RecursionError:
            continue
        op = r.choice(["evaluate", "evaluate", "validate"])
        holder = []

        def call(oo, op=op, holder=holder):
            v = getattr(G.root, op)(oo)
            holder.append(v)
            return v

        with labrea.cache.disabled():
            got = observe(call, copy.deepcopy(o))
        if holder and op == "evaluate":
            # the caller owns what it was given: editing it must not reach the Option's default or a later result
            from ..hostile import scribble

            scribble(holder[0])
            ctx.count("option_history_results_scribbled")
        ctx.evaluations += 1
        ctx.count("option_history_steps")
        raw = U.lookup(key, o)
        if op == "validate":
            if raw is U.ABSENT:
                continue  # validate does not apply the domain to defaults
            same = (got[0] == "ok") == (exp[0] == "ok")
        else:
            same = got[0] == exp[0] and got[1] == exp[1]
        if not same:
            W = {"program": program, "history": hist[: step + 1], "options": o, "op": op, "real": repr(got), "ref": repr(exp)}
            W["mechanism"] = mechanism(key, o, got, program)
            ctx.violation("option-history-dependence", f"step {step} {op}() of one long-lived Option({key!r}, default={dk}:{dv!r}, domain={dom}) on {short(o)}: "
                          f"{short(got)} but the independent lookup gives {short(exp)}", W)
            return


def ref_candidates(program, o):
    from ..ref import RefErr

    try:
        Ref(program).eval(program["root"], o)
    except RefErr as e:
        return e.candidates
    return set()


def mechanism(key, o, got, program=None):
    """Known finding: a scalar where a section is expected makes the lookup raise TypeError.

    Predicate: the failure is a TypeError and some proper prefix of a looked-up path holds a
    non-container.  Neutralisation: with an empty section in place of every such scalar the same
    real call agrees with the independent lookup again; otherwise the violation is something else and is not
    classified."""
    if not (got[0] == "err" and got[1] == "TypeError"):
        return None
    from ..ref import _template_refs

    offending = set()
    for path in {key} | _template_refs(o):
        parts = path.split(".")
        for i in range(1, len(parts)):
            pre = ".".join(parts[:i])
            v = U.lookup(pre, o)
            if v is not U.ABSENT and not isinstance(v, (dict, list)):
                offending.add(pre)
                break
    if not offending:
        return None
    if program is not None:
        o2 = copy.deepcopy(o)
        for pre in sorted(offending, key=len):
            if U.lookup(pre, o2) is not U.ABSENT and not isinstance(U.lookup(pre, o2), (dict, list)):
                o2 = U.set_path(o2, pre, {})
        with labrea.cache.disabled():
            again = observe(build(program).root.evaluate, o2)
        try:
            exp2 = Ref(program).run(o2)
        except RecursionError:
            return None
        if again[0] != exp2[0] or again[1] != exp2[1]:
            return None  # still disagrees with the independent lookup: not (only) this mechanism
    return "option-scalar-where-section-expected"


def exhaustive(ctx):
    cases = []
    for key in KEYS:
        for (dk, dv), dom in itertools.product(DEFAULTS, DOMAINS):
            cases.append((key, dk, dv, dom))
    for i, (key, dk, dv, dom) in enumerate(cases):
        if i % ctx.shards != ctx.shard:
            continue
        r = case_rng(ctx, i)
        # present with each stored value (a sample per case in quick, all in thorough), and absent
        for v in STORED:
            for base in ([r.choice(BASES)] if ctx.quick else BASES):
                option_case(ctx, key, dk, dv, dom, place(copy.deepcopy(base), key, v), "present")
        for base in BASES:
            option_case(ctx, key, dk, dv, dom, U.del_path(copy.deepcopy(base), key), "absent")
        # prefix present but key absent (empty section / short list)
        if "." in key:
            head = key.split(".")[0]
            empty = [] if head == "L" else {}
            option_case(ctx, key, dk, dv, dom, {**copy.deepcopy(BASES[1]), head: empty}, "empty-prefix")
        for _ in range(2 if ctx.quick else 8):
            option_history(ctx, key, dk, dv, dom, r)


def scalar_sections(ctx):
    """Directed family for the recorded finding: a scalar stored where a section is expected."""
    for key in ["S.X", "T.X", "S.X.Z"]:
        for scalar in [None, 0, "", "txt", True]:
            for dk, dv in [("none", None), ("const", 7)]:
                head = key.split(".")[0]
                option_case(ctx, key, dk, dv, None, {"B": 1, head: scalar}, "scalar-section")


# ---------------------------------------------------------------------------
# namespaces


def make_namespace(r, name, depth, plan):
    """Build a class body for @Option.namespace and the plan {fq-key: (default-kind, default, domain)}."""
    body = {"__annotations__": {}}
    n = r.choice([1, 2, 3, 4])
    for i in range(n):
        m = f"M{i}"
        kind = r.choice(["annot", "plain", "option", "option-domain", "auto", "auto-domain", "auto-tform", "sub", "sub-renamed"] if depth > 0
                        else ["annot", "plain", "option", "option-domain", "auto", "auto-domain"])
        if kind == "annot":
            body["__annotations__"][m] = str
            plan.append((m, f"{name}.{m}", "none", None, None, None))
        elif kind == "plain":
            dv = r.choice([0, None, "", "txt", [1], {"k": 1}, False, "{B}"])
            body[m] = copy.deepcopy(dv)
            plan.append((m, f"{name}.{m}", "const", dv, None, None))
        elif kind in ("option", "option-domain"):
            dv = r.choice([1, "a", None])
            dom = r.choice([[0, 1, "a", None], [2, 3]]) if kind == "option-domain" else None
            okey = r.choice([m, f"R{i}"])
            kw = {"default": dv}
            if dom is not None:
                kw["domain"] = dom
            body[m] = Option(okey, **kw)
            plan.append((m, f"{name}.{okey}", "const", dv, dom, None))
        elif kind in ("auto", "auto-domain", "auto-tform"):
            dv = r.choice([1, "a", None, "{B}"])
            dom = r.choice([[0, 1, "a", None, "b"], [2, 3]]) if kind == "auto-domain" else None
            kw = {"default": dv, "doc": "auto member"}
            if dom is not None:
                kw["domain"] = dom
            a = Option.auto(**kw)
            tf = None
            if kind == "auto-tform":
                a = a >> str
                tf = "str"
            body[m] = a
            plan.append((m, f"{name}.{m}", "const", dv, dom, tf))
        elif kind == "sub":
            sub_plan = []
            sub_body = make_namespace(r, f"{name}.{m}", depth - 1, sub_plan)
            body[m] = type(m, (), sub_body)
            plan.append((m, None, "sub", sub_plan, None, None))
        else:
            new = f"N-{i}"
            sub_plan = []
            sub_body = make_namespace(r, new, depth - 1, sub_plan)  # decorated first -> inherited into the parent
            body[m] = Option.namespace(new)(type(m, (), sub_body))
            plan.append((m, None, "renamed", (new, sub_plan), None, None))
    return body


def flatten(ns, plan, prefix_fix=None):
    """Yield (member evaluatable, fully-qualified key, default, domain, transformation)."""
    for m, fq, dk, dv, dom, tf in plan:
        if dk == "sub":
            yield from flatten(getattr(ns, m), dv)
        elif dk == "renamed":
            new, sub_plan = dv
            parent = ns._key
            fixed = [(mm, f"{parent}.{f}" if f else None, k, v, d, t) for mm, f, k, v, d, t in sub_plan]
            yield from flatten(getattr(ns, m), _reparent(sub_plan, parent))
        else:
            yield getattr(ns, m), fq, dk, dv, dom, tf


def _reparent(plan, parent):
    out = []
    for m, fq, dk, dv, dom, tf in plan:
        if dk == "sub":
            out.append((m, None, "sub", _reparent(dv, parent), dom, tf))
        elif dk == "renamed":
            new, sp = dv
            out.append((m, None, "renamed", (new, sp), dom, tf))
        else:
            out.append((m, f"{parent}.{fq}", dk, dv, dom, tf))
    return out


def namespace_case(ctx, r):
    plan = []
    body = make_namespace(r, "NS", 2, plan)
    with warnings.catch_warnings():
        warnings.simplefilter("ignore")
        ns = Option.namespace(type("NS", (), body))
    members = list(flatten(ns, plan))
    for _ in range(3):
        o = {"B": r.choice(["b", 0])}
        for member, fq, dk, dv, dom, tf in members:
            if r.random() < 0.5:
                o = U.set_path(o, fq, r.choice([0, 1, 2, "a", None, "", "zz", "{B}", [1]]))
        for member, fq, dk, dv, dom, tf in members:
            kw = {}
            if dk == "const":
                kw["default"] = copy.deepcopy(dv)
            if dom is not None:
                kw["domain"] = dom
            eq = Option(fq, **kw)
            if tf == "str":
                eq = eq >> str
            for op in ("evaluate", "validate", "keys", "explain"):
                with labrea.cache.disabled():
                    a = observe(getattr(member, op), copy.deepcopy(o))
                    b = observe(getattr(eq, op), copy.deepcopy(o))
                ctx.evaluations += 2
                ctx.count("namespace_member_checks")
                if a[0] != b[0] or a[1] != b[1]:
                    ctx.violation("namespace-member-vs-qualified-option",
                                  f"{op}: namespace member for {fq} gives {short(a)} but Option({fq!r}, default={dv!r}, domain={dom}) gives {short(b)}",
                                  {"fq": fq, "default": repr(dv), "domain": dom, "options": o, "op": op, "plan": repr(plan)[:1500]})
                    return
            if dk == "const" or dom is not None:
                ctx.nontrivial(spec_hash([fq, repr(dv), dom, o]))
        # the namespace as a whole evaluates to the section populated from its members
        with labrea.cache.disabled():
            whole = observe(ns.evaluate, copy.deepcopy(o))
        if whole[0] == "ok":
            ctx.count("namespace_whole_ok")
            # the namespace is its declared members: entries of the caller's section that no member declares play no
            # part in its value or its keys (each member behaves like its fully-qualified Option, nothing else is read)
            o2 = U.set_path(U.set_path(o, "NS.UNDECLARED", True), "NS.UNDECLARED_SECTION.Q", 5)
            with labrea.cache.disabled(), warnings.catch_warnings():
                warnings.simplefilter("ignore")
                whole2 = observe(ns.evaluate, copy.deepcopy(o2))
                k1, k2 = observe(ns.keys, copy.deepcopy(o)), observe(ns.keys, copy.deepcopy(o2))
            ctx.evaluations += 3
            if whole2 != whole or k1 != k2:
                ctx.violation("namespace-reads-undeclared-members", f"the namespace evaluated as a whole gives {short(whole2)} (keys {short(k2)}) once the caller's section holds undeclared entries, "
                              f"{short(whole)} (keys {short(k1)}) without them", {"options": o2, "plan": repr(plan)[:1500]})
                return


# ---------------------------------------------------------------------------
# Option.set


def set_case(ctx, r, key=None):
    o = U.random_options(r, templated=0.1)
    key = key or r.choice(["A", "B", "S.X", "S.Y", "T.X", "S", "N1", "Q.R.S", "S.X.Z"])
    v = copy.deepcopy(r.choice(U.SCALARS + [[], [1], [0, "a"], 3.5, "text"]))
    o_in = copy.deepcopy(o)
    ids = idmap(o)
    opt = Option(key)
    W = {"key": key, "value": v, "options": o_in}
    if any(p.lstrip("-").isdigit() for p in key.split(".")):
        W["mechanism"] = "option-set-list-index"
    try:
        res = opt.set(o, v)
    except Exception as e:  # noqa: BLE001
        ctx.violation("option-set", f"Option({key!r}).set raised {type(e).__name__}: {e}", W)
        return
    ctx.evaluations += 1
    ctx.count("set_cases")
    if o != o_in or idmap(o) != ids:
        ctx.violation("option-set-mutates-input", f"set() modified its input dictionary: {short(o_in)} -> {short(o)}", W)
        return
    if res is o:
        ctx.violation("option-set-returns-input", "set() returned the input object itself", W)
        return
    got = observe(opt.evaluate, res)
    if got != ("ok", canon(v)):
        ctx.violation("option-set-readback", f"after set({v!r}) the option evaluates to {short(got)} in {short(res)}", W)
        return
    from ..ref import related

    # a prefix of the key that is not a section has to be replaced by one; what was below it cannot survive
    parts = key.split(".")
    replaced = [".".join(parts[:i]) for i in range(1, len(parts))
                if U.lookup(".".join(parts[:i]), o_in) is not U.ABSENT and not isinstance(U.lookup(".".join(parts[:i]), o_in), dict)]
    for p in U.leaf_paths(o_in):
        if related(p, key) or any(p.startswith(x + ".") for x in replaced):
            continue
        if U.lookup(p, res) is U.ABSENT or canon(U.lookup(p, res)) != canon(U.lookup(p, o_in)):
            ctx.violation("option-set-loses-sibling", f"set({key!r}) changed unrelated key {p}: {U.lookup(p, o_in)!r} -> {U.lookup(p, res)!r}", W)
            return
    if U.lookup(key, o_in) is not U.ABSENT or "." in key:
        ctx.nontrivial(spec_hash(["set", key, v, o_in]))


STRING_DEFAULTS = ["", "plain", "{B}", "x{B}y", "{S.Y}/{B}", "{Q}", r"\{lit\}", r"a\{b", r"b\}c", r"\{\}", r"{B}\{k\}", r"\{B\}", r"\{{B}\}", "  ", "{B}{B}"]
STRING_BASES = [{}, {"B": "b"}, {"B": 0, "S": {"Y": "sy"}}, {"B": "bb", "S": {"X": 1, "Y": 2}, "Q": None}, {"B": "{C}", "C": "c", "S": {"Y": ""}}]


def string_default_family(ctx):
    """Template-default clause: a string default (escaped braces included) is a template evaluated against the same
    options - through the constructor default, the positional default and a namespace member; oracle = the independent
    substitution of the reference interpreter."""
    from labrea import Option

    for key in ["A", "S.X", "T.X"]:
        for text in STRING_DEFAULTS:
            @Option.namespace("NS")
            class NS:  # noqa: N801
                M: str = text
            variants = {"default=": Option(key, default=text), "positional": Option(key, text), "namespace member": NS.M}
            for base in STRING_BASES:
                o = U.del_path(U.del_path(copy.deepcopy(base), key), "NS")
                want = Ref({"datasets": {}, "root": {"k": "tmpl", "text": text, "params": []}}).run(copy.deepcopy(o))
                for how, opt in variants.items():
                    with labrea.cache.disabled():
                        got = observe(opt.evaluate, copy.deepcopy(o))
                    ctx.evaluations += 1
                    ctx.count("string_default_cases")
                    W = {"family": "string-default", "key": key, "text": text, "options": o, "how": how}
                    if got[:2] != want[:2]:
                        ctx.violation("string-default-vs-substitution", f"Option({key!r}) with the default {text!r} ({how}) on {short(o)} gives {short(got)}; independent substitution gives {short(want)}", W)
                        return
                    if "{" in text:
                        ctx.nontrivial(spec_hash(["strdef", key, text, how, o]))


def transported(ctx):
    """An Option that has travelled (pickle round trip under every protocol, copy.copy, copy.deepcopy) is still that
    Option: 'no default' stays 'no default' (the marker for it is a singleton whose identity must survive the trip),
    a present key still wins, the default and the domain still apply."""
    import pickle

    routes = [(f"pickle-{p}", (lambda x, p=p: pickle.loads(pickle.dumps(x, protocol=p)))) for p in range(pickle.HIGHEST_PROTOCOL + 1)]
    routes += [("copy", copy.copy), ("deepcopy", copy.deepcopy), ("pickle-twice", lambda x: pickle.loads(pickle.dumps(pickle.loads(pickle.dumps(x)))))]
    defaults = [("none", None), ("const", 0), ("const", None), ("const", ""), ("const", [1]), ("tmpl", "t{S.Y}"),
                ("spec", {"k": "opt", "key": "B", "dk": "spec", "dv": {"k": "opt", "key": "C"}})]
    domains = [None, ["container", [0, 1, "a", None, False, ""]]]
    dicts = [{}, {"A": None}, {"A": 0, "S": {"X": False, "Y": "sy"}}, {"A": "", "S": {"X": []}, "B": "b"}, {"A": "{B}", "B": 1, "S": {"X": {}}},
             {"S": {"Y": 2}, "C": "c"}, {"A": "zz", "S": {"X": "zz"}}]
    for key in ("A", "S.X"):
        for (dk, dv), dom in itertools.product(defaults, domains):
            spec = {"k": "opt", "key": key}
            if dk != "none":
                spec["dk"], spec["dv"] = dk, dv
            if dom:
                spec["dom"] = dom
            original = build({"datasets": {}, "root": spec}).root
            for route, go in routes:
                try:
                    moved = go(original)
                except Exception as e:  # noqa: BLE001
                    ctx.violation("option-does-not-travel", f"{route} of {original!r} raised {type(e).__name__}: {e}", {"family": "transported", "option": spec, "route": route})
                    return
                for o in dicts:
                    for op in ("evaluate", "validate", "keys", "explain"):
                        want = observe(getattr(original, op), copy.deepcopy(o))
                        got = observe(getattr(moved, op), copy.deepcopy(o))
                        ctx.evaluations += 2
                        ctx.count("transported_option_checks")
                        if got != want:
                            ctx.violation("transported-option-differs", f"{route} copy of {original!r}: {op}({o}) gives {short(got)}, the original {short(want)}",
                                          {"family": "transported", "option": spec, "route": route, "options": o, "op": op})
                            return
                if repr(moved) != repr(original):
                    ctx.violation("transported-option-differs", f"{route} copy of {original!r} prints as {moved!r}", {"family": "transported", "option": spec, "route": route})
                    return


def canon_keys(outcome):
    return {k[1] for k in outcome[1][1]}


def run(ctx):
    exhaustive(ctx)
    if ctx.shard == 0:
        string_default_family(ctx)
    if ctx.shard == 0:
        scalar_sections(ctx)
    if ctx.shard == 1 % ctx.shards:
        transported(ctx)
    n = ctx.n(160, 3000)
    for i in range(n):
        r = case_rng(ctx, i)
        namespace_case(ctx, r)
    for i in range(ctx.n(2400, 40000)):
        r = case_rng(ctx, 10_000_000 + i)
        set_case(ctx, r)
    if ctx.shard == 0:
        for i in range(40):
            set_case(ctx, case_rng(ctx, 20_000_000 + i), key=["L.0", "L.1", "S.0"][i % 3])


def replay(ctx, rep):
    w = rep["witness"]
    if w.get("family") == "string-default":
        string_default_family(ctx)
    elif w.get("family") == "transported":
        transported(ctx)
    elif "program" in w:
        s = w["program"]["root"]
        option_case(ctx, s["key"], s.get("dk", "none"), s.get("dv"), s.get("dom"), w["options"], "replay")
    else:
        run(ctx)
