"""C18 — every core operation is an interceptable request; pass-through changes nothing.

Monitors: the request tap (pass-through handlers for all nine request types,
installed through labrea.runtime.handle) with its per-thread request stack;
probes, a recording cache backend and a logging.Handler that look at that stack
at the moment they run.
"""
import copy
import importlib
import inspect
import logging
import pkgutil

from .. import boot  # noqa: F401
import labrea
from labrea import (Coalesce, Iter, Map, Option, Template, Value, WithOptions, cached, case, dataset, datasetclass,
                    pipeline_step, switch)
from labrea import runtime as rt
from labrea.application import FunctionApplication, PartialApplication
from labrea.arguments import EvaluatableArgs, EvaluatableArguments, EvaluatableKwargs
from labrea.cache import Cache, CacheGetFailure
from labrea.computation import CallbackEffect, ChainedEffect, Computation, Effect
from labrea.conditional import _DependsOn
from labrea.dataset import Dataset
from labrea.logging import LogEffect, Logged
from labrea.option import AllOptions
from labrea.overload import Overloaded
from labrea.pipeline import Pipeline
from labrea.types import Evaluatable, EvaluateRequest

from .. import directed
from .. import universe as U
from ..build import build
from ..cases import case_rng, program_for
from ..gen import mentioned_keys, spec_hash
from ..outcome import canon, observe, short
from ..ref import Ref, kinds_of
from ..tap import Tap

PROPERTY = "C18"
LEVEL = "exploration"
RULE = (
    "(1) reflection over labrea.* lists every concrete Evaluatable / Effect subclass; one instance of each is built by a "
    "factory table (a class without factory makes the run inconclusive) and each of evaluate/validate/keys/explain must "
    "surface as a request of the matching type whose subject IS the instance; (2) random graphs x dictionaries under the "
    "tap: at every body execution the request stack holds an EvaluateRequest for the root and for the body's dataset, "
    "every backend call happens under a cache request, every emitted record under a LogRequest, every successful Option "
    "evaluation issues exactly one TypeValidationRequest, and results equal the untapped results; (3) a handler that "
    "substitutes one dataset's value is compared with the reference interpreter in which that dataset is a constant. "
    "distinct = sha1(case); non-trivial = nested requests were observed (depth >= 3) or the substitution changed the result."
)
ASSUMPTIONS = ["substitution cases are compared only for dictionaries on which the un-substituted graph evaluates (keys of the substituted dataset are still computed by caching consumers)"]
FLOORS = {"inherited_tap_checks": (2, 2), "nested_datasetclass_checks": (3, 3), "user_subclass_operations": (13, 13), "backend_lied_exists": (150, 1000), "log_emitters_checked": (9, 9), "types_checked": (28, 28), "method_requests_matched": (106, 106), "graph_evaluations": (4000, 30000), "body_stack_checks": (1500, 10000),
          "backend_calls_under_request": (8000, 60000), "option_type_validations": (20000, 100000), "substitutions_compared": (1500, 6000),
          "substitution_changed_result": (800, 3000), "implementation_calls_matched": (100000, 1000000)}
COVER = {"substitution_inner_blocks": ["none", "cache.disabled", "logging.disabled", "mapping-form", "pair-form"]}
SHARDS_QUICK = 4


# ---------------------------------------------------------------------------
# (1) reflection + factories


def discover():
    for m in pkgutil.iter_modules(labrea.__path__):
        importlib.import_module("labrea." + m.name)
    out = []

    def walk(c, acc):
        for s in type.__subclasses__(c):
            if s not in acc:
                acc.append(s)
                walk(s, acc)

    ev, ef = [], []
    walk(Evaluatable, ev)
    walk(Effect, ef)
    for c in ev + ef:
        if c.__module__.startswith("labrea") and not inspect.isabstract(c):
            out.append(c)
    return out


def factories():
    @dataset
    def ds(a=Option("A", 1)):
        return a

    @datasetclass
    class DC:
        a: int = Option("A", 1)

    @pipeline_step
    def step(x, y=Option("B", 2)):
        return (x, y)

    @Option.namespace
    class NS:
        M = 1

    sw = switch("D", {"x": Option("A", 1)}, Option("B", 2))
    table = {
        "FunctionApplication": FunctionApplication(lambda a: a, Option("A", 1)),
        "PartialApplication": PartialApplication(lambda x, a: (x, a), a=Option("A", 1)),
        "EvaluatableArgs": EvaluatableArgs(Option("A", 1)),
        "EvaluatableKwargs": EvaluatableKwargs(a=Option("A", 1)),
        "EvaluatableArguments": EvaluatableArguments(Option("A", 1), b=Option("B", 2)),
        "Cached": cached(Option("A", 1)),
        "Coalesce": Coalesce(Option("A"), Option("B", 2)),
        "Computation": Computation(Option("A", 1), CallbackEffect(lambda v: None)),
        "CaseWhen": case(Option("A", 1)).when(lambda a: a == 1, "one").otherwise("other"),
        "Switch": sw,
        "_DependsOn": _DependsOn(Option("A", 1), Option("B", 2)),
        "_FallbackFor": sw._lookup({}) if type(sw._lookup({})).__name__ == "_FallbackFor" else None,
        "Dataset": ds,
        "_DatasetClassMeta": DC,
        "Iter": Iter(Option("A", 1), Value(2)),
        "Map": Map(Option("A"), {"A": Value([1, 2])}),
        "Logged": Logged(Option("A", 1), logging.INFO, "lvf.c18", "msg"),
        "Namespace": NS,
        "Option": Option("A", 1),
        "WithOptions": WithOptions(Option("A", 1), {"A": 2}),
        "_AllOptions": AllOptions,
        "Overloaded": Overloaded(Option("D", "x"), {"x": Option("A", 1)}, Value(0)),
        "Pipeline": Pipeline() + step,
        "PipelineStep": step,
        "Template": Template("{A}-{:p:}", p=Option("B", 2)),
        "Apply": Option("A", 1).apply(lambda a: a),
        "Bind": Option("A", 1).bind(lambda a: Option("B", 2)),
        "Value": Value(1),
        "LogEffect": LogEffect(logging.INFO, "lvf.c18", "msg"),
        "CallbackEffect": CallbackEffect(lambda v: None),
        "ChainedEffect": ChainedEffect(CallbackEffect(lambda v: None)),
    }
    return table


METHOD_KIND = {"evaluate": "evaluate", "validate": "validate", "keys": "keys", "explain": "explain"}
_IMPL_CODES = None


def impl_codes():
    """code object of every saved evaluate/validate/keys/explain implementation -> request kind."""
    global _IMPL_CODES
    if _IMPL_CODES is None:
        _IMPL_CODES = {}
        for c in discover():
            for m in METHOD_KIND:
                f = c.__dict__.get(f"__labrea_{m}__")
                code = getattr(f, "__code__", None)
                if code is not None and not getattr(f, "__labrea_wrapper__", False):
                    _IMPL_CODES[code] = m
    return _IMPL_CODES


def reflection(ctx):
    classes = discover()
    table = factories()
    for c in classes:
        inst = table.get(c.__qualname__)
        if inst is None:
            ctx.inconclusive.append(f"no factory for discovered type {c.__module__}.{c.__qualname__}")
            continue
        if not isinstance(inst, c):
            ctx.inconclusive.append(f"factory for {c.__qualname__} built a {type(inst).__name__}")
            continue
        ctx.count("types_checked")
        ctx.cover("types", c.__qualname__)
        methods = ["evaluate", "validate", "keys", "explain"] if isinstance(inst, Evaluatable) else ["validate", "explain"]
        o = {"A": 1, "B": 2, "D": "x"}
        for m in methods:
            plain = observe(getattr(inst, m), copy.deepcopy(o))
            with Tap() as t:
                tapped = observe(getattr(inst, m), copy.deepcopy(o))
            ctx.evaluations += 2
            top = [e for e in t.events if e[2] == 0]
            from ..tap import subject

            ok = any(e[0] == METHOD_KIND[m] and subject(e[1]) is inst for e in top)
            W = {"type": c.__qualname__, "method": m}
            if not ok:
                ctx.violation("method-bypasses-runtime", f"{c.__qualname__}.{m}() issued no {m} request for the instance (top-level requests seen: {[e[0] for e in top]})", W)
                return
            if plain != tapped:
                ctx.violation("passthrough-changes-result", f"{c.__qualname__}.{m}(): {short(plain)} without tap, {short(tapped)} with", W)
                return
            ctx.count("method_requests_matched")


# ---------------------------------------------------------------------------
# (2) graphs under the tap


class StackCache(Cache):
    def __init__(self, tap_ref, ctx, problems):
        self.store = {}
        self.tap_ref = tap_ref
        self.ctx = ctx
        self.problems = problems

    def _check(self, method):
        tap = self.tap_ref.get("tap")
        if tap is None:
            return
        st = tap.stack()
        kinds = [k for k, _ in st]
        self.ctx.count("backend_calls_under_request")
        # a store is issued by a set request only; the read-back of a set request and an exists() built on get() are reads
        allowed = {"set": ("cache_set",), "get": ("cache_get", "cache_set", "cache_exists"), "exists": ("cache_exists",)}[method]
        if not kinds or kinds[-1] not in allowed:
            self.problems.append(f"backend {method}() called without a cache {'/'.join(a[6:] for a in allowed)} request on top of the request stack (stack {kinds[-4:]})")

    def get(self, evaluatable, options):
        self._check("get")
        try:
            return self.store[evaluatable.fingerprint(options)]
        except KeyError as e:
            raise CacheGetFailure(evaluatable, options, self) from e

    def set(self, evaluatable, options, value):
        self._check("set")
        self.store[evaluatable.fingerprint(options)] = value

    def exists(self, evaluatable, options):
        self._check("exists")
        self.n_exists = getattr(self, "n_exists", 0) + 1
        present = evaluatable.fingerprint(options) in self.store
        if not present and self.n_exists % 4 == 2:
            # an unreliable answer now and then (the entry is reported but cannot be read back): the recovery path
            # of the library must go through requests like every other store
            self.ctx.count("backend_lied_exists")
            return True
        return present


class StackLogHandler(logging.Handler):
    def __init__(self, tap_ref, problems, ctx):
        super().__init__(logging.DEBUG)
        self.tap_ref, self.problems, self.ctx = tap_ref, problems, ctx

    def emit(self, record):
        tap = self.tap_ref.get("tap")
        if tap is None or not str(record.getMessage()).startswith("Labrea: Evaluating"):
            return
        self.ctx.count("log_records_under_request")
        if not tap.stack() or tap.stack()[-1][0] != "log":
            self.problems.append("log record emitted outside a LogRequest")


def graph_case(ctx, program, o, tag):
    tap_ref, problems = {}, []
    G = build(program, cache_factory=lambda kind: StackCache(tap_ref, ctx, problems))
    plain = observe(build(program).root.evaluate, copy.deepcopy(o))
    body_checks = []

    def on_event(phase, kind, request, stack, result):
        pass

    handler = StackLogHandler(tap_ref, problems, ctx)
    root_logger = logging.getLogger()
    old = root_logger.level
    root_logger.addHandler(handler)
    root_logger.setLevel(logging.INFO)
    # probes look at the request stack when they run
    orig_hit = G.log.hit

    def hit(kind, pid, info=None):
        tap = tap_ref.get("tap")
        if tap is not None and kind == "body":
            st = tap.stack()
            ctx.count("body_stack_checks")
            did = pid[2:].split(":")[0]
            evs = [r.evaluatable for k, r in st if k == "evaluate"]
            if not evs or evs[0] is not G.root:
                problems.append(f"body {pid} ran but the bottom of the request stack is not the root evaluate request")
            owners = [e for e in evs if isinstance(e, Dataset) and str(G.dataset_ids.get(id(e), "")).split("/")[0] == did]
            if not owners:
                problems.append(f"body {pid} ran with no EvaluateRequest for its dataset on the request stack ({[type(e).__name__ for e in evs][-6:]})")
        return orig_hit(kind, pid, info)

    G.log.hit = hit
    codes = impl_codes()
    from ..tap import subject as _subject

    def profiler(frame, event, arg):
        # every call of a saved implementation must be the body of a request for that very object
        if event != "call":
            return
        kind = codes.get(frame.f_code)
        if kind is None:
            return
        tap = tap_ref.get("tap")
        if tap is None or tap.paused:
            return
        me = frame.f_locals.get(frame.f_code.co_varnames[0]) if frame.f_code.co_argcount else None
        st = tap.stack()
        ctx.count("implementation_calls_matched")
        if not st or st[-1][0] != kind or _subject(st[-1][1]) is not me:
            top = (st[-1][0], type(_subject(st[-1][1])).__name__) if st else None
            problems.append(f"{type(me).__name__}.{kind} implementation ran without a {kind} request for that object on top of the request stack (top: {top})")

    import sys

    try:
        with Tap() as t:
            tap_ref["tap"] = t
            sys.setprofile(profiler)
            try:
                tapped = observe(G.root.evaluate, copy.deepcopy(o))
            finally:
                sys.setprofile(None)
            tap_ref["tap"] = None
    finally:
        root_logger.removeHandler(handler)
        root_logger.setLevel(old)
    ctx.evaluations += 2
    ctx.count("graph_evaluations")
    W = {"program": program, "options": o, "source": tag}
    if problems:
        ctx.violation("operation-outside-request", problems[0], W)
        return
    if plain != tapped and not (plain[0] == "err" and tapped[0] == "err"):
        ctx.violation("passthrough-changes-result", f"{short(plain)} without tap, {short(tapped)} with", W)
        return
    # exactly one TypeValidationRequest per successful Option evaluation
    evs = t.events
    n_opt = sum(1 for e in evs if e[0] == "evaluate" and e[3] == "return" and type(e[1].evaluatable) is Option)
    n_tv = sum(1 for e in evs if e[0] == "type_validation" and e[3] == "return")
    n_tv_all = sum(1 for e in evs if e[0] == "type_validation")
    ctx.count("option_type_validations", n_tv)
    if not (n_opt <= n_tv_all and n_tv <= sum(1 for e in evs if e[0] == "evaluate" and type(e[1].evaluatable) is Option)):
        ctx.violation("type-validation-count", f"{n_opt} successful Option evaluations but {n_tv_all} TypeValidationRequests", W)
        return
    for k in ("evaluate", "keys", "cache_exists", "cache_get", "cache_set", "log", "type_validation", "validate"):
        if any(e[0] == k for e in evs):
            ctx.cover("request_kinds_seen", k)
    # every operation - explain / keys / validate too, which evaluate datasets to choose branches - emits its log
    # records as requests the pass-through handler sees: one per evaluation of a logging node that completed, none more
    # than the evaluations of logging nodes that were started
    from labrea.logging import Logged

    for op in ("evaluate", "explain", "keys", "validate"):
        G2 = build(program)
        with Tap() as t2:
            observe(getattr(G2.root, op), copy.deepcopy(o))
        done = sum(1 for e in t2.events if e[0] == "evaluate" and e[3] == "return" and isinstance(e[1].evaluatable, Logged))
        started = sum(1 for e in t2.events if e[0] == "evaluate" and isinstance(e[1].evaluatable, Logged))
        seen = sum(1 for e in t2.events if e[0] == "log")
        ctx.evaluations += 1
        ctx.count("log_requests_accounted", seen)
        if op != "evaluate" and started:
            ctx.count("inspections_that_evaluated_logging_nodes")
        if not (done <= seen <= started):
            ctx.violation("log-emission-outside-request", f"{op}(): {started} evaluations of logging nodes were started, {done} completed, but the pass-through handler observed {seen} log request(s)", {**W, "op": op})
            return
    if any(e[2] >= 3 for e in evs):
        ctx.nontrivial(spec_hash([program, o]))
        ctx.sample({"program": program, "options": o, "requests": {k: sum(1 for e in evs if e[0] == k) for k in set(e[0] for e in evs)}}, limit=2)


# ---------------------------------------------------------------------------
# (3) substitution


def substitution_case(ctx, program, o, did, tag):
    canned = ("substituted", did)
    G = build(program)
    if G.derived:
        return
    plain = observe(build(program).root.evaluate, copy.deepcopy(o))
    if plain[0] != "ok":
        return
    target = G.dataset(did)
    # consumers that cache still compute keys() of the real dataset: only dictionaries on which it evaluates
    if observe(build(program).dataset(did).evaluate, copy.deepcopy(o))[0] != "ok":
        return
    cur = rt.current_runtime()
    inner = cur.handlers[EvaluateRequest]

    def handler(request):
        if request.evaluatable is target:
            return canned
        return inner(request)

    # the evaluation happens inside a further, unrelated block entered within the substituting one (handlers for other
    # request types, mapping and pair form): the enclosing handler must keep serving
    import contextlib

    import labrea.cache
    import labrea.logging
    from labrea.logging import LogRequest

    inners = {"none": contextlib.nullcontext, "cache.disabled": labrea.cache.disabled, "logging.disabled": labrea.logging.disabled,
              "mapping-form": lambda: rt.handle({LogRequest: cur.handlers[LogRequest]}), "pair-form": lambda: rt.handle(LogRequest, cur.handlers[LogRequest])}
    inner_name = sorted(inners)[int(spec_hash([program, o, did]), 16) % len(inners)]
    from ..tap import Recorder

    # (every other substitution is installed as a callable OBJECT that is an empty container, i.e. falsy)
    with rt.handle(EvaluateRequest, Recorder(handler) if int(spec_hash([did, o]), 16) % 2 else handler):
        with inners[inner_name]():
            got = observe(G.root.evaluate, copy.deepcopy(o))
    ctx.cover("substitution_inner_blocks", inner_name)
    r = Ref(program)
    r.substitutes[str(did)] = canned
    exp = r.run(o)
    ctx.evaluations += 2
    ctx.count("substitutions_compared")
    W = {"program": program, "options": o, "dataset": did, "source": tag, "inner_block": inner_name}
    if got[0] != exp[0] or (got[0] == "ok" and got[1] != exp[1]):
        ctx.violation("substitution-not-honoured", f"with dataset {did} substituted (evaluated inside an inner block: {inner_name}): {short(got)}, reference with that dataset as a constant: {short(exp)}", W)
        return
    if got != plain:
        ctx.count("substitution_changed_result")
        ctx.nontrivial(spec_hash(["subst", program, o, did]))


def user_subclasses(ctx):
    """The extension point: user-defined Evaluatable hierarchies (a subclass of a user subclass overriding the
    operations again, a subclass of Option overriding evaluate) - every operation called on an instance is issued as
    one request for that instance and reaches the most derived implementation."""
    calls = []

    class Base(Evaluatable):
        def evaluate(self, options):
            calls.append("Base.evaluate")
            return ("base", options.get("A"))

        def validate(self, options):
            calls.append("Base.validate")

        def keys(self, options):
            calls.append("Base.keys")
            return {"A"} & set(options)

        def explain(self, options=None):
            calls.append("Base.explain")
            return {"A"}

        def __repr__(self):
            return type(self).__name__ + "()"

    class Leaf(Base):
        def evaluate(self, options):
            calls.append("Leaf.evaluate")
            return ("leaf", options.get("A"))

        def keys(self, options):
            calls.append("Leaf.keys")
            return {"A", "B"} & set(options)

    class Deeper(Leaf):
        def evaluate(self, options):
            calls.append("Deeper.evaluate")
            return ("deeper", options.get("A"))  # (no super() call: see DESIGN section 6, observations)

        def explain(self, options=None):
            calls.append("Deeper.explain")
            return {"A", "B"}

    class MyOption(Option):
        def evaluate(self, options):
            calls.append("MyOption.evaluate")
            return ("mine", options.get(self.key))

    o = {"A": 1, "B": 2}
    subjects = {"Base": (Base(), {"evaluate": "Base", "validate": "Base", "keys": "Base", "explain": "Base"}),
                "Leaf": (Leaf(), {"evaluate": "Leaf", "validate": "Base", "keys": "Leaf", "explain": "Base"}),
                "Deeper": (Deeper(), {"evaluate": "Deeper", "validate": "Base", "keys": "Leaf", "explain": "Deeper"}),
                "MyOption": (MyOption("A"), {"evaluate": "MyOption"})}
    for name, (obj, impls) in subjects.items():
        for op, owner in impls.items():
            del calls[:]
            with Tap() as t:
                getattr(obj, op)(dict(o))
            mine = [e for e in t.of(op, "return") if subject_of(e[1]) is obj]
            ctx.evaluations += 1
            ctx.count("user_subclass_operations")
            W = {"family": "user-subclasses", "class": name, "op": op}
            if len(mine) != 1:
                ctx.violation("operation-outside-request", f"{name}().{op}(o) was observed as {len(mine)} {op} request(s) for that object (expected exactly one); implementations called: {calls}", W)
                return
            if not calls or calls[0] != f"{owner}.{op}":
                ctx.violation("operation-outside-request", f"{name}().{op}(o) ran {calls}, expected the most derived implementation {owner}.{op} first", W)
                return
            ctx.nontrivial(spec_hash(["user-subclass", name, op]))


def nested_datasetclass(ctx):
    """A dataset class used as a member of another dataset class (and of a dataset): instantiating the outer one
    evaluates the inner one through a request - a tap sees it, a substitute for it is honoured."""
    Inner = datasetclass(type("Inner", (), {"__annotations__": {"a": int, "b": int}, "a": Option("A", 1), "b": Option("S.X", 2)}))
    Outer = datasetclass(type("Outer", (), {"__annotations__": {"inner": object, "c": int}, "inner": Inner, "c": Option("C", 3)}))
    Outer2 = datasetclass(type("Outer2", (Outer,), {"__annotations__": {"d": int}, "d": Option("A", 0)}))
    user = dataset.nocache(lambda i=Inner, o=Outer: (i.a, o.inner.b, o.c))
    o = {"A": 5, "S": {"X": 6}}
    for name, subject_ in (("Outer", Outer), ("Outer2 (inherits the member)", Outer2), ("dataset using both", user)):
        with Tap() as t:
            plain = observe(subject_.evaluate, copy.deepcopy(o))
        seen = [e for e in t.of("evaluate", "return") if subject_of(e[1]) is Inner]
        ctx.evaluations += 1
        ctx.count("nested_datasetclass_checks")
        W = {"family": "nested-datasetclass", "subject": name}
        if not seen:
            ctx.violation("operation-outside-request", f"{name}: the nested dataset class was instantiated but no evaluate request for it was observed ({short(plain)})", W)
            return
        canned = ("substituted-inner",)
        cur = rt.current_runtime()
        inner_handler = cur.handlers[EvaluateRequest]

        def handler(request):
            if request.evaluatable is Inner:
                return canned
            return inner_handler(request)

        with rt.handle(EvaluateRequest, handler):
            try:
                v = subject_.evaluate(copy.deepcopy(o))
                got = v.inner if hasattr(v, "inner") else repr(v)
            except Exception as e:  # noqa: BLE001  (the dataset body reads attributes of the canned value)
                got = f"{type(e).__name__}"
        if name != "dataset using both" and got != canned:
            ctx.violation("substitution-not-honoured", f"{name}: with the nested dataset class substituted its member is {got!r}, expected the substitute", W)
            return
        if name == "dataset using both" and got != "EvaluationError":
            ctx.violation("substitution-not-honoured", f"{name}: the substitute for the nested dataset class did not reach the body ({got!r})", W)
            return
        ctx.nontrivial(spec_hash(["nested-datasetclass", name]))


def inherited_tap(ctx):
    """Evaluations done by a worker thread that inherited the submitting thread's runtime are observed by that thread's
    tap and honour its substitutes - for a fresh worker and for a re-used one that already had a runtime of its own."""
    import threading

    leaf = dataset.nocache(lambda a=Option("A", 1): ("leaf", a))
    top = dataset.nocache(lambda x=leaf: ("top", x))
    for reused in (False, True):
        seen, out = [], {}
        go, done = threading.Event(), threading.Event()
        parent = threading.current_thread()

        def work():
            if reused:
                top.evaluate({"A": 0})  # the worker has used the library before: it owns a runtime already
            go.wait(30)
            rt.inherit(parent)
            out["value"] = observe(top.evaluate, {"A": 5})
            done.set()

        t = threading.Thread(target=work, name="c18-worker")
        t.start()
        canned = ("substituted-leaf",)
        cur = rt.current_runtime()
        inner = cur.handlers[EvaluateRequest]

        def handler(request):
            seen.append(request.evaluatable)
            if request.evaluatable is leaf:
                return canned
            return inner(request)

        with rt.handle(EvaluateRequest, handler):
            go.set()
            done.wait(30)
        t.join(30)
        ctx.evaluations += 1
        ctx.count("inherited_tap_checks")
        W = {"family": "inherited-tap", "reused_worker": reused}
        if not any(e is top for e in seen) or out.get("value") != ("ok", canon(("top", canned))):
            ctx.violation("operation-outside-request", f"a {'re-used' if reused else 'fresh'} worker inherited the submitting thread's runtime: its evaluation gave {short(out.get('value'))}; "
                          f"the submitting thread's handler saw {len(seen)} request(s) (expected the substitute for the inner dataset to be honoured)", W)
            return
        ctx.nontrivial(spec_hash(["inherited-tap", reused]))


def subject_of(request):
    from ..tap import subject

    return subject(request)


def log_emitters(ctx):
    """Every way the package emits a log record goes through one LogRequest: the level helpers, LogEffect attached to a
    dataset / used in a Computation, Logged in both orders, Dataset evaluation.  A pass-through tap sees exactly one
    request per emission with the level, logger name and message of the record that reaches the logging module."""
    import logging as pylog

    import labrea.logging as LL
    from labrea import dataset
    from labrea.computation import Computation

    records = []

    class H(pylog.Handler):
        def emit(self, record):
            records.append((record.levelno, record.name, record.getMessage()))

    h = H()
    root = pylog.getLogger()
    old = root.level
    root.addHandler(h)
    root.setLevel(pylog.DEBUG)
    try:
        emitters = {}
        for lvl in ("CRITICAL", "ERROR", "WARNING", "INFO", "DEBUG"):
            emitters[f"helper-{lvl}"] = (lambda x={}, lvl=lvl: getattr(LL, lvl)("lvf.emit", f"msg-{lvl}", {"A": 1, **x}), [(getattr(pylog, lvl), "lvf.emit", f"msg-{lvl}")])

        def body(a=Option("A", 1)):
            return a

        d_eff = dataset.nocache(body, effects=[LL.LogEffect(pylog.WARNING, "lvf.effect", "from-effect")])
        emitters["LogEffect-on-dataset"] = (lambda x={}: d_eff.evaluate({"A": 2, **x}), None)  # + the dataset's own INFO record
        comp = Computation(Option("A", 1), LL.LogEffect(pylog.ERROR, "lvf.comp", "from-computation"))
        emitters["LogEffect-in-Computation"] = (lambda x={}: comp.evaluate({**x}), [(pylog.ERROR, "lvf.comp", "from-computation")])
        for first in (True, False):
            lg = LL.Logged(Option("A", 1), pylog.INFO, "lvf.logged", f"logged-first={first}", log_first=first)
            emitters[f"Logged-log_first={first}"] = (lambda x={}, lg=lg: lg.evaluate({**x}), [(pylog.INFO, "lvf.logged", f"logged-first={first}")])
        for name, (fn, want) in emitters.items():
            del records[:]
            with Tap() as t:
                fn()
            reqs = [(e[1].level, e[1].name, e[1].msg) for e in t.of("log", "return")]
            ctx.evaluations += 1
            ctx.count("log_emitters_checked")
            W = {"family": "log-emitters", "emitter": name}
            if sorted(reqs) != sorted(records):
                ctx.violation("log-record-outside-request", f"{name}: records that reached the logging module {records} but LogRequests observed {reqs}", W)
                return
            if want is not None and reqs != want:
                ctx.violation("log-request-content", f"{name}: observed {reqs}, expected {want}", W)
                return
            if want is None and (pylog.WARNING, "lvf.effect", "from-effect") not in reqs:
                ctx.violation("log-request-content", f"{name}: observed {reqs}; the effect's record is missing", W)
                return
            ctx.nontrivial(spec_hash(["log-emitter", name]))
            # the same emission under a dictionary that switches logging off: whether to drop the record is the
            # HANDLER's decision, so the request is still issued (and observed) - nothing reaches the logging module
            del records[:]
            with Tap() as t:
                fn({"LABREA": {"LOGGING": {"DISABLED": True}}})
            reqs_off = [(e[1].level, e[1].name, e[1].msg) for e in t.of("log", "return")]
            ctx.count("log_emitters_checked_with_logging_switched_off")
            if records:
                ctx.violation("log-record-outside-request", f"{name} under LABREA.LOGGING.DISABLED: records still reached the logging module: {records}", W)
                return
            if sorted(reqs_off) != sorted(reqs):
                ctx.violation("log-request-content", f"{name} under LABREA.LOGGING.DISABLED: the pass-through handler observed {reqs_off}; with logging on it observed {reqs}", W)
                return
    finally:
        root.removeHandler(h)
        root.setLevel(old)


FEATURES_SUB = {"coalesce": False, "with": False, "domains": False, "allopts": False, "map": False}


def run(ctx):
    if ctx.shard == 0:
        reflection(ctx)
        log_emitters(ctx)
        user_subclasses(ctx)
        nested_datasetclass(ctx)
        inherited_tap(ctx)
    else:
        # every shard re-checks reflection cheaply so that the floors are shard-independent
        pass
    rng = ctx.rng
    dicts = directed.dictionaries()
    for i, p in enumerate(directed.programs()):
        if i % ctx.shards != ctx.shard:
            continue
        name = p.pop("name")
        for o in dicts[::3]:
            graph_case(ctx, p, o, f"directed:{name}")
        for did in p["datasets"]:
            for o in dicts[::4]:
                if not (kinds_of(p) & {"coalesce", "with", "map"}) and not any(d.get("options") or d.get("default_options") for d in p["datasets"].values()):
                    substitution_case(ctx, p, o, did, f"directed:{name}")
    n = ctx.n(2000, 16000)
    for i in range(n):
        r = case_rng(ctx, i)
        program = program_for(r, r.choice([1, 2, 3]), n_datasets=r.choice([1, 2, 3]))
        for _ in range(3):
            graph_case(ctx, program, U.random_options(r, p_present=0.75, closed_only=True), "random")
        sp = program_for(r, r.choice([1, 2]), features=FEATURES_SUB, n_datasets=r.choice([2, 3, 4]))
        ids = list(sp["datasets"])
        sp["root"] = {"k": "tuple", "items": [{"k": "ds", "id": ids[-1]}, sp["root"]]}
        for _ in range(3):
            substitution_case(ctx, sp, U.random_options(r, p_present=0.85, templated=0.05, closed_only=True), r.choice(ids), "random")


def replay(ctx, rep):
    w = rep["witness"]
    if w.get("family") == "inherited-tap":
        inherited_tap(ctx)
    elif w.get("family") == "nested-datasetclass":
        nested_datasetclass(ctx)
    elif w.get("family") == "user-subclasses":
        user_subclasses(ctx)
    elif w.get("family") == "log-emitters":
        log_emitters(ctx)
    elif "type" in w:
        reflection(ctx)
    elif "dataset" in w:
        substitution_case(ctx, w["program"], w["options"], w["dataset"], "replay")
    else:
        graph_case(ctx, w["program"], w["options"], "replay")
