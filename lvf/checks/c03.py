"""C03 — keys() is sufficient and present-only; fingerprints depend on nothing else.

Monitors: boundary recorder on keys()/fingerprint()/evaluate() for the original,
restricted and perturbed dictionaries; child interpreters with different
PYTHONHASHSEED for process stability.
"""
import copy
import hashlib
import json
import os
import subprocess
import sys
import tempfile

from .. import boot  # noqa: F401
import labrea.cache

from .. import directed
from .. import universe as U
from ..build import build
from ..cases import case_rng, program_for
from ..gen import mentioned_keys, spec_hash
from ..outcome import observe, short
from ..ref import Ref, related
from ..findings import classify_fallback, explain_raised
from ..tap import Tap
from ..verdict import Ctx
from labrea.types import ExplainRequest

PROPERTY = "C03"
LEVEL = "exploration"
RULE = (
    "case = (program, dictionary o) on which keys(o) succeeds: every reported key present (independent "
    "lookup); evaluate / keys on o restricted to exactly the reported keys agree with o; fingerprint equal "
    "for o, restricted o, o + never-mentioned key, top-level permutation, and for single/double-key "
    "perturbations outside keys(o) that leave keys() unchanged; fingerprint differs when a reported key's "
    "value changes with keys() unchanged; equal fingerprints imply equal uncached outcomes; fingerprints "
    "byte-identical across child interpreters with different PYTHONHASHSEED.  distinct = sha1(spec, o); "
    "non-trivial = keys(o) non-empty and at least one perturbation was compared."
)
ASSUMPTIONS = [
    "restriction keeps a whole list when a reported key indexes into it",
    "values differing only as 1 vs 1.0 and nested key order are outside the quantifier and not generated",
]
FLOORS = {"keys_ok": (1500, 30000), "restrict_checked": (1200, 25000), "outside_perturbations": (2500, 50000),
          "inside_perturbations": (800, 15000), "soundness_pairs": (300, 6000), "hashseed_fingerprints": (200, 1000), "dangling_dispatch_cases": (150, 150)}
SHARDS_QUICK = 4


def deep_reordered(o):
    """An equal dictionary whose mappings (top level, sections, sections inside lists) list their entries in reverse order."""
    if isinstance(o, dict):
        return {k: deep_reordered(o[k]) for k in reversed(list(o))}
    if isinstance(o, list):
        return [deep_reordered(x) for x in o]
    return copy.deepcopy(o)


def uncached(obj, o):
    with labrea.cache.disabled():
        return observe(obj.evaluate, copy.deepcopy(o))


def keys_of(obj, o):
    try:
        return ("ok", frozenset(obj.keys(copy.deepcopy(o))))
    except Exception as e:  # noqa: BLE001
        from ..outcome import err_outcome

        return err_outcome(e)


def fp_of(obj, o):
    try:
        return obj.fingerprint(copy.deepcopy(o))
    except Exception as e:  # noqa: BLE001
        return ("err", type(e).__name__)


CLASSIFIABLE = {"restricted-keys-differ", "restricted-outcome-differs", "restricted-fingerprint-differs", "equal-fingerprint-different-outcome"}


def viol(ctx, program, o, monitor, msg, W, other=None):
    """Report a violation; attribute it to the recorded fall-back finding only if an explain() raised while
    the key set was computed AND the violation disappears under the conservative neutralisation."""
    if monitor in CLASSIFIABLE and not getattr(ctx, "scratch", False):
        raised = False
        for d in [o] + ([other] if other is not None else []):
            with Tap(types=[ExplainRequest]) as t:
                try:
                    build(program).root.keys(copy.deepcopy(d))
                except Exception:  # noqa: BLE001
                    pass
            raised = raised or explain_raised(t.events)
        if raised:
            def rerun():
                sc = Ctx(ctx.prop, ctx.tier, ctx.seed)
                sc.scratch = True
                G2, seen2 = build(program), {}
                if other is not None:
                    check_case(sc, program, other, G2, seen2, [])
                check_case(sc, program, o, G2, seen2, [])
                return len(sc.violations)

            W = {**W, "mechanism": classify_fallback(rerun)}
    ctx.violation(monitor, msg, W)


def check_case(ctx, program, o, G, seen, corpus, tag="random"):
    root = G.root
    k = keys_of(root, o)
    ctx.evaluations += 1
    if k[0] != "ok":
        ctx.count("keys_failed")
        return
    ks = k[1]
    ctx.count("keys_ok")
    W = {"program": program, "options": o, "keys": sorted(ks), "source": tag}
    absent = [x for x in ks if not U.present(x, o)]
    if absent:
        ctx.violation("reported-key-absent", f"keys(o) reports {absent} which are not present in o", W)
        return
    fp = fp_of(root, o)
    if isinstance(fp, tuple):
        ctx.violation("fingerprint-fails", f"keys(o) succeeded but fingerprint(o) raised {fp}", W)
        return
    out = uncached(root, o)
    # fingerprint soundness across everything seen for this program
    prev = seen.get(fp)
    if prev is not None and prev[1] != o:
        ctx.count("soundness_pairs")
        a, b = prev[0], out
        if a[0] != b[0] or (a[0] == "ok" and a[1] != b[1]):
            viol(ctx, program, o, "equal-fingerprint-different-outcome",
                 f"fingerprint {fp[:80]!r} shared by dictionaries with outcomes {short(a)} / {short(b)}",
                 {**W, "other_options": prev[1]}, other=prev[1])
            return
    seen.setdefault(fp, (out, copy.deepcopy(o)))
    if len(corpus) < 40 and ks:
        corpus.append((program, o, hashlib.sha1(fp).hexdigest()))
    # restriction
    star = "*" in Ref(program).may_read(program["root"])
    r = U.restrict(o, ks)
    kr = keys_of(root, r)
    outr = uncached(root, r)
    ctx.evaluations += 2
    ctx.count("restrict_checked")
    if kr != k:
        viol(ctx, program, o, "restricted-keys-differ", f"keys(o|keys) = {short(kr)} but keys(o) = {sorted(ks)}", {**W, "restricted": r})
        return
    if out[0] != outr[0] or (out[0] == "ok" and out[1] != outr[1]):
        viol(ctx, program, o, "restricted-outcome-differs", f"evaluate(o|keys) = {short(outr)} but evaluate(o) = {short(out)}", {**W, "restricted": r})
        return
    fr = fp_of(root, r)
    if fr != fp:
        viol(ctx, program, o, "restricted-fingerprint-differs", f"fingerprint(o|keys) {fr!r} != fingerprint(o) {fp!r}", {**W, "restricted": r})
        return
    rng = case_rng(ctx, hash(spec_hash([program, o])) & 0xFFFF)
    compared = 0
    # noise / permutation
    for variant, o2 in (("noise", U.with_noise(rng, o)), ("permuted", U.permuted(rng, o)), ("deep-reordered", deep_reordered(o))):
        if variant == "deep-reordered" and star:
            continue  # (AllOptions exposes the dictionary, order included, as a value)
        if variant == "noise" and star:
            continue  # AllOptions refers to every key, so no key is 'never mentioned'
        k2 = keys_of(root, o2)
        if k2 != k:
            # C03 only constrains dictionaries that agree on the reported keys; a key set that grows with
            # an extra key (AllOptions, conservative fall-back of coalesce/switch) is C02's concern
            ctx.count("noise_or_permutation_changed_keys")
            continue
        f2 = fp_of(root, o2)
        compared += 1
        if f2 != fp:
            ctx.violation(f"fingerprint-changes-on-{variant}", f"fingerprint {f2!r} != {fp!r}", {**W, "options2": o2})
            return
    # perturbations outside the reported keys
    # deleting one list element shifts its siblings: treat every L.* path as related to a reported L.* key
    lists_reported = any(x.split(".")[0] == "L" for x in ks)
    outside = [p for p in U.READ_KEYS + U.NOISE
               if not any(related(p, x) for x in ks) and not (lists_reported and p.split(".")[0] == "L")]
    for _ in range(6):
        if not outside:
            break
        o2, p, kind = U.perturb(rng, o, outside)
        if p is None:
            continue
        if rng.random() < 0.4:
            o2, p2, _ = U.perturb(rng, o2, outside)
        k2 = keys_of(root, o2)
        ctx.evaluations += 1
        if k2 != k:
            ctx.count("outside_perturbation_changed_keys")
            continue
        ctx.count("outside_perturbations")
        compared += 1
        f2 = fp_of(root, o2)
        if f2 != fp:
            ctx.violation("fingerprint-depends-on-unreported-key",
                          f"changing {p} ({kind}), outside keys(o)={sorted(ks)} and leaving keys() unchanged, changed the fingerprint",
                          {**W, "options2": o2, "perturbed": p})
            return
    # perturbations of reported keys
    for x in sorted(ks)[:4]:
        o2, p, kind = U.perturb(rng, o, [x], kinds=("change",))
        if p is None:
            continue
        if repr(U.lookup(x, o2)) == repr(U.lookup(x, o)):
            continue
        k2 = keys_of(root, o2)
        ctx.evaluations += 1
        if k2 != k:
            continue
        ctx.count("inside_perturbations")
        compared += 1
        f2 = fp_of(root, o2)
        if f2 == fp:
            ctx.violation("fingerprint-blind-to-reported-key",
                          f"value under reported key {x} changed ({U.lookup(x, o)!r} -> {U.lookup(x, o2)!r}) but the fingerprint did not",
                          {**W, "options2": o2, "perturbed": x})
            return
    if ks and compared:
        ctx.nontrivial(spec_hash([program, o]))
        ctx.sample({"program": program, "options": o, "keys": sorted(ks), "fingerprint": fp.decode()[:200]}, limit=3)


CHILD = r"""
import json, sys, hashlib, warnings
warnings.simplefilter("ignore")
from lvf.build import build
corpus = json.load(open(sys.argv[1]))
out = []
for program, o in corpus:
    try:
        out.append(hashlib.sha1(build(program).root.fingerprint(o)).hexdigest())
    except Exception as e:
        out.append("err:" + type(e).__name__)
print(json.dumps(out))
"""


def hashseed_stability(ctx, corpus):
    if not corpus:
        return
    tmp = tempfile.mkdtemp(prefix="lvf-c03-")
    try:
        path = os.path.join(tmp, "corpus.json")
        with open(path, "w") as f:
            json.dump([[p, o] for p, o, _ in corpus], f)
        expected = [h for _, _, h in corpus]
        seeds = [0, 1, 2, 3, 7, 11, 12345, 999983] if ctx.quick else list(range(32))
        seeds = [s for i, s in enumerate(seeds) if i % ctx.shards == ctx.shard % max(1, min(ctx.shards, len(seeds)))] or seeds[:1]
        for seed in seeds:
            env = dict(os.environ, PYTHONHASHSEED=str(seed), PYTHONPATH=boot.VERIF)
            try:
                r = subprocess.run([sys.executable, "-B", "-c", CHILD, path], cwd=boot.VERIF, env=env, capture_output=True, text=True, timeout=300)
            except subprocess.TimeoutExpired:
                ctx.inconclusive.append(f"hash-seed child {seed} timed out")
                continue
            if r.returncode != 0:
                ctx.inconclusive.append(f"hash-seed child {seed} failed: {r.stderr[-500:]}")
                continue
            got = json.loads(r.stdout.strip().splitlines()[-1])
            ctx.count("hashseed_fingerprints", len(got))
            ctx.cover("hash_seeds", seed)
            for i, (a, b) in enumerate(zip(got, expected)):
                if a != b:
                    ctx.violation("fingerprint-not-process-stable",
                                  f"PYTHONHASHSEED={seed}: fingerprint digest {a} != {b} (parent, seed {os.environ.get('PYTHONHASHSEED')})",
                                  {"program": corpus[i][0], "options": corpus[i][1], "hash_seed": seed})
                    return
    finally:
        import shutil

        shutil.rmtree(tmp, ignore_errors=True)


def dangling_dispatch(ctx):
    """A switch / overloaded dataset takes its default because the dispatch cannot be evaluated - not because the
    dispatch key is absent but because what it holds refers to an absent option.  The present keys the dispatch
    read decide that (drop them and the dispatch option's own default selects another branch), so they belong to
    keys().  Dictionaries here are deliberately NOT closed."""
    O, C = directed.O, directed.C
    table = [["x", O("B", dk="const", dv="b-dflt")], ["y", C("why")]]
    programs = {
        "switch-option-default": directed.prog({"k": "switch", "disp": O("D", dk="const", dv="x"), "table": table, "default": O("C", dk="const", dv="c-dflt")}),
        "switch-section-option-default": directed.prog({"k": "cached", "spec": {"k": "switch", "disp": O("S.X", dk="const", dv="y"), "table": table, "default": O("C", dk="const", dv="c-dflt")}}),
        "switch-template-dispatch": directed.prog({"k": "switch", "disp": {"k": "tmpl", "text": "{D}", "params": []}, "table": table, "default": O("C", dk="const", dv="c-dflt")}),
        "switch-option-template-default": directed.prog({"k": "switch", "disp": O("E", dk="tmpl", dv="{D}"), "table": table, "default": O("C", dk="const", dv="c-dflt")}),
        "dataset-dispatch-option-default": directed.prog(directed.DS(1), d1={"args": [["c", O("C", dk="const", dv="c-dflt")]], "dispatch": O("D", dk="const", dv="x"),
                                                                           "overloads": [["x", {"args": [["b", O("B", dk="const", dv="b-dflt")]]}], ["y", {"args": []}]]}),
        "consumer-of-dispatching-dataset": directed.prog(directed.DS(2), d1={"args": [["c", O("C", dk="const", dv="c-dflt")]], "dispatch": O("S.X", dk="const", dv="x"),
                                                                           "overloads": [["x", {"args": [["b", O("B", dk="const", dv="b-dflt")]]}], ["y", {"args": []}]]},
                                                         d2={"args": [["inner", directed.DS(1)], ["a", O("T.X", dk="const", dv=0)]]}),
    }
    for name, program in programs.items():
        G, seen = build(program), {}
        for d in ("{A}", "q{A}", "{S.Y}", "x", "y", U.ABSENT):
            for a in (U.ABSENT, "x", "y"):
                for extra in ({}, {"B": 1}, {"C": 2, "B": 1}):
                    o = dict(extra)
                    sec = {}
                    if d is not U.ABSENT:
                        o["D"] = d
                        sec["X"] = d
                    if a is not U.ABSENT:
                        o["A"] = a
                        sec["Y"] = a
                    if sec:
                        o["S"] = sec
                    if not U._acyclic(o):
                        continue
                    ctx.count("dangling_dispatch_cases")
                    check_case(ctx, program, o, G, seen, [], tag=f"dangling-dispatch:{name}")


def run(ctx):
    rng = ctx.rng
    dicts = directed.dictionaries()
    corpus = []
    if ctx.shard == 0:
        dangling_dispatch(ctx)
    for i, p in enumerate(directed.programs()):
        if i % ctx.shards != ctx.shard:
            continue
        name = p.pop("name")
        G = build(p)
        seen = {}
        for o in dicts:
            check_case(ctx, p, o, G, seen, corpus, tag=f"directed:{name}")
        keys = sorted(mentioned_keys(p)) or None
        for o in U.history(rng, 12 if ctx.quick else 40, keys, closed_only=True):
            check_case(ctx, p, o, G, seen, corpus, tag=f"directed:{name}")
    n = ctx.n(500, 14000)
    depth = 3 if ctx.quick else 4
    for i in range(n):
        r = case_rng(ctx, i)
        program = program_for(r, r.choice([1, 2, 3, depth]), features={"domains": False})
        keys = sorted(mentioned_keys(program)) or None
        G = build(program)
        seen = {}
        for o in U.history(r, 5 if ctx.quick else 8, keys, p_present=0.7, closed_only=True):
            check_case(ctx, program, o, G, seen, corpus if i % 7 == 0 else [None] * 99, tag="random")
    hashseed_stability(ctx, [c for c in corpus if c is not None])


def replay(ctx, rep):
    w = rep["witness"]
    G = build(w["program"])
    seen = {}
    if "other_options" in w:
        check_case(ctx, w["program"], w["other_options"], G, seen, [])
    check_case(ctx, w["program"], w["options"], G, seen, [])
