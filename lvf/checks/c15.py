"""C15 — threads: handler contexts are thread-local; concurrent register / evaluate are safe.

The real code runs under the controlled scheduler (lvf.sched): 2-3 worker
threads, one running at a time, preempted at operation boundaries, at every
source line or at every bytecode of labrea frames.  Schedules are enumerated
depth-first up to a preemption bound, then sampled at random.
"""
import random
import threading

from .. import boot  # noqa: F401
from .. import sched as S

S.install()

from labrea import Option, dataset  # noqa: E402
from labrea import runtime as rt  # noqa: E402
from labrea.overload import Overloaded  # noqa: E402
from labrea.types import Value  # noqa: E402

from ..gen import spec_hash  # noqa: E402

PROPERTY = "C15"
LEVEL = "exploration"
RULE = (
    "scenario x schedule: (a) 2-3 threads entering/exiting private and SHARED runtime objects and running requests, "
    "each thread's observed handler tags compared with the single-thread stack model of its own history; (b) a worker "
    "calling inherit(parent) while the parent enters/exits contexts - the inherited handler must be one the parent "
    "had current between call and return; (c) concurrent register of unique aliases on one Overloaded / Dataset "
    "interleaved with evaluations - no alias lost, own registrations visible; (d) concurrent evaluations of one cached "
    "dataset with per-thread and with equal option values - each result carries the caller's values.  Schedules: DFS "
    "with <=k preemptions at op / line / opcode granularity, then seeded random.  distinct = sha1(scenario, "
    "granularity, choice list); non-trivial = the schedule contains at least one context switch."
)
ASSUMPTIONS = [
    "CPython: preemption between bytecodes of labrea frames only; C-level dict operations atomic (GIL)",
    "labrea's locks replaced by cooperating locks from the harness (no source change)",
]
FLOORS = {"schedules": (1500, 40000), "switching_schedules": (1000, 30000), "opcode_schedules": (300, 8000),
          "line_schedules": (300, 8000), "yield_points": (50000, 1000000), "lock_acquisitions": (2000, 50000), "focus_schedules": (1500, 15000)}
COVER = {"scenarios": ["contexts-shared", "contexts-private", "inherit", "register-overloaded", "register-dataset", "evaluate-cached-unique", "evaluate-cached-equal", "inspect-shared", "evaluate-cached-typed"]}
SHARDS_QUICK = 4
TIMEOUT_QUICK = 1200
TIMEOUT_THOROUGH = 3600
# exploration stops widening once a shard has used this much wall-clock time (what was explored is counted and the floors
# decide whether that is enough; the watchdog above is a separate, later line whose firing is inconclusive)
BUDGET = {"quick": 700, "thorough": 2000}


class T0(rt.Request):
    def __init__(self):
        pass


class T1(rt.Request):
    def __init__(self):
        pass


def tagger(tag):
    def h(request):
        return tag

    return h


rt.handle_by_default(T0, tagger("default0"))


def ask(T):
    try:
        return T().run()
    except TypeError:
        return "TypeError"
    except Exception as e:  # noqa: BLE001
        return f"{type(e).__name__}"


# ---------------------------------------------------------------------------
# scenarios: make(rng) -> (fns, verify) ; verify() -> None or message


def sc_contexts(rng, shared=True, n=2):
    """Each thread: nested with-blocks over a shared runtime object R and a private derived one."""
    R = rt.Runtime({T1: tagger("R")})
    plans = []
    for i in range(n):
        k = rng.choice([0, 1, 2, 3, 4, 4])
        plans.append(k)
    obs = {i: [] for i in range(n)}
    exp = {i: [] for i in range(n)}

    def fn_for(i, k):
        def fn(s, me):
            mine = rt.Runtime({T1: tagger(f"p{i}")})
            s.op(me)
            obs[i].append(ask(T1))
            exp[i].append("TypeError")
            first = R if shared else mine
            with first:
                s.op(me)
                obs[i].append(ask(T1))
                exp[i].append("R" if shared else f"p{i}")
                if k >= 1:
                    with mine:
                        s.op(me)
                        obs[i].append(ask(T1))
                        exp[i].append(f"p{i}")
                        if k >= 2:
                            with R:
                                s.op(me)
                                obs[i].append(ask(T1))
                                exp[i].append("R")
                            s.op(me)
                            obs[i].append(ask(T1))
                            exp[i].append(f"p{i}")
                    s.op(me)
                    obs[i].append(ask(T1))
                    exp[i].append("R" if shared else f"p{i}")
                if k >= 3:
                    with rt.handle(T0, tagger(f"h{i}")):
                        s.op(me)
                        obs[i].append((ask(T0), ask(T1)))
                        exp[i].append((f"h{i}", "R" if shared else f"p{i}"))
                if k >= 4:
                    # short-lived derived runtimes, several deep and twice over, each with a library-derived block
                    # (logging / cache switched off) inside: whatever the library keeps per runtime must not outlive it
                    import contextlib

                    import labrea.cache
                    import labrea.logging

                    for rnd in range(2):
                        with contextlib.ExitStack() as st:
                            for j in range(4):
                                st.enter_context(rt.handle(T0, tagger(f"h{i}.{rnd}.{j}")))
                                s.op(me)
                                with (labrea.logging.disabled() if (j + rnd) % 2 == 0 else labrea.cache.disabled()):
                                    obs[i].append((ask(T0), ask(T1)))
                                    exp[i].append((f"h{i}.{rnd}.{j}", "R" if shared else f"p{i}"))
            s.op(me)
            obs[i].append((ask(T0), ask(T1)))
            exp[i].append(("default0", "TypeError"))

        return fn

    fns = [fn_for(i, k) for i, k in enumerate(plans)]

    def verify():
        for i in range(n):
            if obs[i] != exp[i]:
                return f"thread {i} observed handlers {obs[i]} but its own history alone gives {exp[i]}"
        for t in threading.enumerate():
            pass
        return None

    return fns, verify, {"plans": plans, "shared": shared}


def sc_inherit(rng):
    """Thread 0 (parent) enters/exits contexts; thread 1 inherits from it and asks.

    Harness events of both threads are ordered by one global sequence counter (only one thread runs at a time, so
    the counter is a total order; the scheduler clock only ticks at operation boundaries and cannot order two
    events inside one tick).  Every change of the parent's current handler is bracketed: a "pre" event is written
    before the change starts, a "post" event after it took effect.  A handler may be current from the "pre" event of
    the change that installs it until the "post" event of the change that replaces it."""
    import itertools as _it

    seq = _it.count()
    changes = []  # [pre-seq, post-seq or None, tag]
    got = {}
    holder = {}

    def pre(tag):
        changes.append([next(seq), None, tag])

    def post():
        changes[-1][1] = next(seq)

    pre("TypeError")
    post()

    def parent(s, me):
        holder["thread"] = threading.current_thread()
        rt.current_runtime()
        s.op(me)
        for tag in ("a", "b"):
            pre(tag)
            with rt.handle(T1, tagger(tag)):
                post()
                s.op(me)
                ask(T1)
                s.op(me)
                pre("TypeError")
            post()
            s.op(me)

    def child(s, me):
        s.op(me)
        t_call = next(seq)
        rt.inherit(s.threads[0])
        t_ret = next(seq)
        s.op(me)
        got["tag"] = ask(T1)
        got["interval"] = (t_call, t_ret)
        got["t0"] = ask(T0)
        # a worker that is re-used: inside a block of its own it inherits from a thread that never had a runtime -
        # it gets the handlers that thread has at that moment, i.e. the defaults
        with rt.handle(T1, tagger("own")):
            rt.inherit(threading.Thread(target=lambda: None, name="never-started"))
            got["reinherit"] = ask(T1)

    def verify():
        if "tag" not in got:
            return None
        t_call, t_ret = got["interval"]
        allowed = set()
        for i, (p0, _p1, tag) in enumerate(changes):
            nxt = changes[i + 1][1] if i + 1 < len(changes) else None  # replaced for sure once the next change's post is written
            if p0 <= t_ret and (nxt is None or nxt >= t_call):
                allowed.add(tag)
        if got["tag"] not in allowed:
            return f"inherit() between events {t_call}..{t_ret} gave handler {got['tag']!r}; the parent had {sorted(allowed)} current in that window (changes [pre, post, handler]: {changes})"
        if got["t0"] != "default0":
            return f"inherited runtime lost the default handler: {got['t0']!r}"
        if got.get("reinherit", "TypeError") != "TypeError":
            return f"a worker inside its own block inherited from a thread without any runtime and is still served by {got['reinherit']!r} (that thread has only the defaults)"
        return None

    return [parent, child], verify, {}


def sc_register(rng, on_dataset=False, n=2):
    """Concurrent registration of unique aliases, interleaved with evaluations."""
    per = rng.choice([1, 2])
    if on_dataset:
        @dataset(dispatch="D")
        def target(a: int = Option("A", 0)):
            return ("default", a)

        S.cooperative(target.overloads)
        table = lambda: target.overloads.lookup  # noqa: E731
        register = target.register
        evaluate = target.evaluate
    else:
        ov = Overloaded(Option("D"), {}, Value("default"))
        S.cooperative(ov)
        table = lambda: ov.lookup  # noqa: E731
        register = ov.register
        evaluate = ov.evaluate
    seen = {i: [] for i in range(n)}

    route0 = rng.randrange(3)

    def fn_for(i):
        def fn(s, me):
            for j in range(per):
                key = f"k{i}.{j}"
                s.op(me)
                route = ["register", "decorator", "decorator-list"][(route0 + i + j) % 3] if on_dataset else "register"
                if route == "register":
                    register(key, Value(("impl", key)))
                else:
                    # the decorator routes of a dataset: @target.overload(alias) / @target.overload([alias, other])
                    def impl(key=key):
                        return ("impl", key)

                    impl.__name__ = "impl_" + key.replace(".", "_")
                    target.overload(key if route == "decorator" else [key, key + "'"])(impl)
                s.op(me)
                seen[i].append((key, evaluate({"D": key, "A": i})))

        return fn

    def verify():
        final = table()
        for i in range(n):
            for j in range(per):
                if f"k{i}.{j}" not in final:
                    return f"alias k{i}.{j} registered by thread {i} is missing from the final table {sorted(final)}"
            for key, val in seen[i]:
                if val != ("impl", key):
                    return f"thread {i} registered {key} and then evaluated it to {val!r}"
        return None

    return [fn_for(i) for i in range(n)], verify, {"per": per, "dataset": on_dataset}


def sc_evaluate(rng, unique=True, n=2, typed=None):
    from labrea import cached

    small = rng.random() < 0.5
    # "typed": the threads' dictionaries are == to each other and still different (1 / True / 1.0): each thread's value
    # shows the type it was computed from
    typed = (unique and rng.random() < 0.4) if typed is None else typed
    if small:
        target = cached(Option("A") >> (lambda a: ("inner", repr(a) if typed else a)))
        expect = lambda o: ("inner", repr(o["A"]) if typed else o["A"])  # noqa: E731
    else:
        @dataset
        def target(a: int = Option("A"), b: int = Option("B", 0)):
            return ("inner", repr(a) if typed else a, b)

        expect = lambda o: ("inner", repr(o["A"]) if typed else o["A"], o["B"])  # noqa: E731

    got = {i: [] for i in range(n)}
    rounds = rng.choice([1, 2])
    twins = [1, True, 1.0]

    def fn_for(i):
        def fn(s, me):
            for r in range(rounds):
                a = twins[(i + r) % 3] if typed else ([i, r] if unique else "same")
                o = {"A": a, "B": (0 if typed else r) if unique else 0}
                s.op(me)
                got[i].append((o, target.evaluate(o)))

        return fn

    def verify():
        for i in range(n):
            for o, v in got[i]:
                if v != expect(o):
                    return f"thread {i} evaluated with {o} and got {v!r}, its own options give {expect(o)!r}"
        # follow-up history: every dictionary once more, sequentially (a store made under the wrong key shows here)
        for i in range(n):
            for o, _ in got[i]:
                v = target.evaluate(dict(o))
                if v != expect(o):
                    return f"after the concurrent evaluations, evaluating {o} again returns {v!r} instead of {expect(o)!r} (cache entry written under another thread's key)"
        return None

    return [fn_for(i) for i in range(n)], verify, {"unique": unique, "rounds": rounds, "small": small, "typed": typed}


def sc_inspect(rng, n=2):
    """One shared (uncached) expression graph inspected and evaluated from several threads, each with its own
    dictionary: every answer - evaluate, keys, explain, validate - is the one a lone caller gets for that dictionary."""
    import labrea.functions as F
    from labrea import Template, case, coalesce, switch

    def above(x, limit):
        return x > limit

    branchy = (case(Option("A", 0))
               .when(F.partial(above, limit=Option("HIGH", 10)), Option("B", "high"))
               .when(F.partial(above, limit=Option("LOW", 1)), Template("mid-{C}"))
               .otherwise(Option("E", "low")))
    shared = coalesce(switch(Option("D", "x"), {"x": branchy, "y": Option("S.X")}), Option("T.X", "fallback"))
    # per thread a dictionary that selects another branch after consulting another number of conditions
    own = [{"A": 20, "B": "b", "HIGH": 15, "LOW": 2}, {"A": 5, "C": "c", "LOW": 2, "HIGH": 15}, {"A": 0, "LOW": 3, "HIGH": 4}]
    other = [{"D": "y", "S": {"X": 1}}, {"D": "y"}, {"A": 5, "LOW": 2}, {"A": 12, "HIGH": 11, "D": "x"}, {}]
    ops = ["keys", "explain", "explain", "keys", "evaluate", "validate"]
    rounds = rng.choice([1, 2])
    plan = {i: [(rng.choice(ops[:4] if r == 0 else ops), own[i % 3] if r == 0 or rng.random() < 0.5 else rng.choice(other)) for r in range(rounds)] for i in range(n)}
    got = {i: [] for i in range(n)}

    def outcome(op, o):
        try:
            v = getattr(shared, op)(dict(o))
            return ("ok", sorted(v) if isinstance(v, (set, frozenset)) else v)
        except Exception as e:  # noqa: BLE001
            return ("err", type(e).__name__, getattr(e, "key", None))

    def fn_for(i):
        def fn(s, me):
            for op, o in plan[i]:
                s.op(me)
                got[i].append((op, o, outcome(op, o)))

        return fn

    def verify():
        for i in range(n):
            for op, o, v in got[i]:
                alone = outcome(op, o)
                if v != alone:
                    return f"thread {i} called {op}({o}) on the shared expression and got {v!r}; a lone caller gets {alone!r}"
        return None

    return [fn_for(i) for i in range(n)], verify, {"rounds": rounds, "plan": {str(k): v for k, v in plan.items()}}


SCENARIOS = {
    "inspect-shared": lambda r: sc_inspect(r, r.choice([2, 2, 3])),
    "contexts-shared": lambda r: sc_contexts(r, True, r.choice([2, 2, 3])),
    "contexts-private": lambda r: sc_contexts(r, False, 2),
    "inherit": sc_inherit,
    "register-overloaded": lambda r: sc_register(r, False, r.choice([2, 2, 3])),
    "register-dataset": lambda r: sc_register(r, True, 2),
    "evaluate-cached-unique": lambda r: sc_evaluate(r, True, r.choice([2, 3])),
    "evaluate-cached-equal": lambda r: sc_evaluate(r, False, 2),
    "evaluate-cached-typed": lambda r: sc_evaluate(r, True, r.choice([2, 3]), typed=True),
}


def cleanup(threads):
    with rt.lock:
        for t in threads:
            rt._RUNTIMES.pop(t, None)


FOCUS = {  # focus mode: yield points only in the file that owns the shared state of the scenario
    "inspect-shared": ("conditional.py",),
    "evaluate-cached-unique": ("cache.py",), "evaluate-cached-equal": ("cache.py",), "evaluate-cached-typed": ("cache.py",),
    "register-overloaded": ("overload.py",), "register-dataset": ("overload.py", "dataset.py"),
    "contexts-shared": ("runtime.py",), "contexts-private": ("runtime.py",), "inherit": ("runtime.py",),
}


def one_schedule(ctx, name, seed, gran, chooser, focus=False):
    r = random.Random(seed)
    fns, verify, params = SCENARIOS[name](r)
    files = tuple(S.LABREA_DIR + f for f in FOCUS[name]) if focus else None
    s = S.Scheduler(chooser, gran, trace_files=files)
    if focus:
        ctx.count("focus_schedules")
    res = s.run(fns, timeout=60)
    cleanup(s.threads)
    ctx.evaluations += 1
    ctx.count("schedules")
    ctx.count(f"{gran}_schedules")
    ctx.count("yield_points", s.yields)
    ctx.count("context_switches", s.switches)
    ctx.count("lock_acquisitions", s.lock_events)
    ctx.cover("scenarios", name)
    W = {"scenario": name, "scenario_seed": seed, "granularity": gran, "choices": list(chooser.trace), "params": params, "focus": focus}
    if res.get("hung"):
        ctx.inconclusive.append(f"{name}/{gran}: threads {res['hung']} hit the watchdog")
        return
    if res.get("deadlock"):
        ctx.violation("deadlock", f"{name}/{gran}: {res['deadlock']}", W)
        return
    if res["errors"]:
        i, e = next(iter(res["errors"].items()))
        ctx.violation("thread-raised", f"{name}/{gran}: thread {i} raised {type(e).__name__}: {e}", W)
        return
    msg = verify()
    if msg:
        ctx.violation("thread-oracle", f"{name}/{gran}: {msg}", W)
        return
    if s.switches:
        ctx.count("switching_schedules")
        ctx.nontrivial(spec_hash([name, seed, gran, chooser.trace]))
        ctx.cover("interleavings", spec_hash([name, tuple(s.ops_order)]))
        ctx.sample({"scenario": name, "granularity": gran, "choices": chooser.trace[:60], "op_interleaving": s.ops_order[:40],
                    "yield_points": s.yields, "context_switches": s.switches}, limit=3)


def warmup(names):
    """The first traced schedule of a process sees fewer trace events than later ones (CPython instruments code
    objects lazily), so schedules recorded later would not replay in a fresh process.  Two throw-away schedules
    per scenario and granularity bring every process into the same steady state before anything is recorded."""
    from ..verdict import Ctx

    scratch = Ctx("C15", "quick", 0)
    for name in names:
        for gran in ("line", "opcode"):
            for focus in (False, True):
                for _ in range(2):
                    one_schedule(scratch, name, 0, gran, S.ReplayChooser([]), focus=focus)


def run(ctx):
    names = sorted(SCENARIOS)
    mine = [n for i, n in enumerate(names) if i % ctx.shards == ctx.shard % len(names)] if ctx.shards <= len(names) else [names[ctx.shard % len(names)]]
    warmup(mine)
    bounds = {"op": (2, 3), "line": (2, 3), "opcode": (1, 2)}
    limits = {"op": (120, 1500), "line": (150, 2500), "opcode": (150, 2500)}
    budget = BUDGET[ctx.tier]

    def spent():
        if ctx.elapsed() > budget:
            ctx.count("stopped_widening_on_time_budget")
            return True
        return False

    for name in mine:
        for sseed in range(2 if ctx.quick else 4):
            seed = ctx.seed * 1000 + sseed + (ctx.shard // len(names)) * 100
            for gran in ("op", "line", "opcode"):
                if sseed and spent():
                    continue
                k = bounds[gran][0 if ctx.quick else 1]
                lim = limits[gran][0 if ctx.quick else 1]
                before = len(ctx.violations)

                def runner(ch, name=name, seed=seed, gran=gran):
                    one_schedule(ctx, name, seed, gran, ch)

                # complete depth-first enumeration when it fits half the budget, then an even spread of single /
                # double (triple) deviations over the whole execution
                n_dfs = 0
                for ch in S.dfs_schedules(runner, k, lim // 2):
                    n_dfs += 1
                    if len(ctx.violations) > before:
                        break
                if n_dfs >= lim // 2 and len(ctx.violations) == before:
                    for ch in S.spread_schedules(runner, k, lim - n_dfs, random.Random(f"{ctx.seed}:{name}:{gran}:{sseed}")):
                        if len(ctx.violations) > before or (sseed and ctx.elapsed() > budget):
                            break
                else:
                    ctx.count("exhaustive_dfs_" + gran)
                ctx.count("dfs_runs_" + gran)
                # focus mode: with yield points only in the file owning the scenario's shared state the execution
                # is short enough to enumerate EVERY single preemption (and many double ones) at line/opcode level
                if gran != "op" and len(ctx.violations) == before:
                    def frunner(ch, name=name, seed=seed, gran=gran):
                        one_schedule(ctx, name, seed, gran, ch, focus=True)

                    for ch in S.spread_schedules(frunner, 2, 120 if ctx.quick else 1200, random.Random(f"f:{ctx.seed}:{name}:{gran}:{sseed}")):
                        if len(ctx.violations) > before or (sseed and ctx.elapsed() > budget):
                            break
                # random schedules beyond the bound
                for j in range(40 if ctx.quick else 600):
                    if len(ctx.violations) > before or (sseed and ctx.elapsed() > budget):
                        break
                    one_schedule(ctx, name, seed, gran, S.RandomChooser(random.Random(f"{ctx.seed}:{name}:{gran}:{sseed}:{j}"), p_switch=0.04 if gran == "opcode" else 0.12))


def replay(ctx, rep):
    w = rep["witness"]
    warmup([w["scenario"]])
    one_schedule(ctx, w["scenario"], w["scenario_seed"], w["granularity"], S.ReplayChooser(w["choices"]), focus=w.get("focus", False))
