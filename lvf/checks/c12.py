"""C12 — failures surface as EvaluationError with source and cause; never stored.

Fault enumeration: every probe that runs in a fault-free pass (body, callback,
effect, predicate, bind function, step, default factory, domain predicate) is
made to raise each exception class, always / on its first / on its second call.
Monitors: exception object at the evaluate() boundary (type, .source identity,
__cause__ chain down to the injected instance), request tap (CacheSetRequest
log = cache shadow), later outcomes vs a fault-free uncached instance.
"""
import copy

from .. import boot  # noqa: F401
import labrea.cache
from labrea.exceptions import EvaluationError, KeyNotFoundError
from labrea.types import Evaluatable

from .. import directed
from .. import universe as U
from ..build import build
from ..cases import case_rng, program_for
from ..gen import mentioned_keys, spec_hash
from ..outcome import canon, chain, observe, same, short
from ..ref import kinds_of
from ..tap import Tap

PROPERTY = "C12"
LEVEL = "fault_enumeration"
RULE = (
    "fault plan = {probe id -> (exception class, trigger)} with probe ids taken from a fault-free pass of the same "
    "(program, history): all single faults x 6 exception classes x 3 triggers for directed programs, sampled singles "
    "and pairs for random programs; history on one long-lived instance mixes failing and succeeding evaluations and "
    "re-supplies missing options; family failed-then-same-object: long-lived cached nodes / datasets whose body "
    "raises for some values, ONE dictionary object edited in place between calls, fresh equal dictionaries mixed in.  distinct = sha1(program, plan, history); non-trivial = the injected exception was "
    "actually raised and the evaluation at the boundary failed or a fall-back absorbed it."
)
ASSUMPTIONS = ["exception classes: ValueError, KeyError, ZeroDivisionError, TypeError, RuntimeError, AttributeError, OSError, custom Exception, a foreign EvaluationError, CacheGetFailure, KeyNotFoundError"]
FLOORS = {"fault_runs": (1500, 40000), "faults_fired": (1200, 30000), "boundary_failures_checked": (1500, 30000),
          "chains_reaching_injected": (700, 15000), "stores_verified": (1500, 40000), "post_failure_steps_compared": (1500, 40000),
          "user_subclass_failure_steps": (36, 36), "missing_then_supplied": (150, 3000), "dangling_reference_cases": (1200, 25000), "dangling_missing_key_reports": (150, 3000)}
COVER = {"fault_kinds": ["body", "callback", "effect", "pred", "bindfn", "step", "factory", "dompred", "fn"],
         "fault_classes": ["ValueError", "KeyError", "ZeroDivisionError", "InjectedFault", "EvaluationError", "CacheGetFailure", "TypeError", "RuntimeError", "AttributeError", "OSError"]}
SHARDS_QUICK = 4

CLASSES = ["ValueError", "KeyError", "ZeroDivisionError", "InjectedFault", "EvaluationError", "CacheGetFailure", "KeyNotFoundError",
           "TypeError", "RuntimeError", "AttributeError", "OSError", "RecursionError", "AssertionError", "LookupError", "NotImplementedError"]
NATIVE = {"KeyNotFoundError", "SwitchError", "CaseWhenError", "ValueError", "TypeError"}
TRIGGERS = [None, [0], [1]]


def fault_free_pass(program, history):
    G = build(program)
    for o in history:
        observe(G.root.evaluate, copy.deepcopy(o))
    pids = {}
    for _, kind, pid, _, _ in G.log.events:
        pids.setdefault(pid, kind)
    return pids


def run_plan(ctx, program, history, plan, pids, tag):
    G = build(program)
    log = G.log
    log.faults = dict(plan)
    stores = []  # (evaluatable, options, canon(value)) for every CacheSetRequest

    def on_event(phase, kind, request, stack, result):
        if kind == "cache_set" and phase == "return":
            stores.append((request.evaluatable, copy.deepcopy(dict(request.options)), canon(request.value), request.cache))

    W = {"program": program, "history": history, "plan": {k: list(v) for k, v in plan.items()}, "source": tag}
    ctx.count("fault_runs")
    simple = not (kinds_of(program) & {"with", "map"}) and not any(d.get("options") or d.get("default_options") for d in program["datasets"].values())
    fired_any = False
    nocache_steps = {i for i in range(len(history)) if (hash(spec_hash([program, i])) % 4) == 0} if "*" not in _reads(program) else set()
    mentioned = mentioned_keys(program)
    absorbed_at = None
    with Tap(on_event=on_event, keep=False):
        for step, o in enumerate(history):
            in_block = False
            if nocache_steps and step in nocache_steps:
                if step % 2:
                    in_block = True  # the same switch as a handler block: a failure must unwind it
                else:
                    o = U.set_path(o, "LABREA.CACHE.DISABLED", True)
            n_raised = len(log.raised)
            n_stores = len(stores)
            err = None
            import threading as _th

            from labrea import runtime as _rt

            rt_before = _rt._RUNTIMES.get(_th.current_thread())
            try:
                if in_block:
                    ctx.count("steps_inside_handler_block")
                    with labrea.cache.disabled():
                        v = G.root.evaluate(copy.deepcopy(o))
                else:
                    v = G.root.evaluate(copy.deepcopy(o))
                from ..outcome import canon as _c

                got = ("ok", _c(v))
            except BaseException as e:  # noqa: BLE001
                err = e
                got = ("err", type(e).__name__)
            if _rt._RUNTIMES.get(_th.current_thread()) is not rt_before:
                ctx.violation("failed-evaluation-left-handlers-installed", f"step {step}: after {'a failing' if err is not None else 'an'} evaluation inside a handler block the thread's "
                              f"current runtime is not the one that was current before the block", {**W, "step": step})
                # restore, so that the harness itself keeps working
                with _rt.lock:
                    _rt._RUNTIMES[_th.current_thread()] = rt_before
                return
            ctx.evaluations += 1
            injected = log.raised[n_raised:]
            if injected:
                fired_any = True
                ctx.count("faults_fired")
            Ws = {**W, "step": step}
            if err is not None:
                ctx.count("boundary_failures_checked")
                if not isinstance(err, EvaluationError):
                    ctx.violation("non-evaluationerror-escaped", f"evaluate() raised {type(err).__name__}: {err}", Ws)
                    return
                if err.source is not G.root:
                    ctx.violation("wrong-source", f"EvaluationError.source is {short(err.source)} not the object evaluate() was called on", Ws)
                    return
                ch = chain(err)
                root = ch[-1]
                if injected and any(x is root for x in injected):
                    ctx.count("chains_reaching_injected")
                elif type(root).__name__ == "KeyError" and len(ch) > 1 and isinstance(ch[-2], KeyNotFoundError):
                    pass  # the dictionary lookup that a missing-key error was raised from
                elif type(root).__name__ not in NATIVE:
                    ctx.violation("cause-chain-broken", f"cause chain ends in {type(root).__name__}: {root} ; injected this step: {[type(x).__name__ for x in injected]}", Ws)
                    return
                for x in ch:
                    if isinstance(x, EvaluationError) and not isinstance(x.source, Evaluatable):
                        ctx.violation("chain-link-without-source", f"{type(x).__name__} in the chain has source {x.source!r}", Ws)
                        return
                if not injected:
                    knf = [x for x in ch if isinstance(x, KeyNotFoundError)]
                    if knf and simple:
                        key = knf[-1].key
                        from ..ref import _template_refs

                        allowed = mentioned | _template_refs(o)
                        if not isinstance(key, str) or U.present(key, o) or key not in allowed:
                            ctx.violation("missing-key-misreported", f"KeyNotFoundError names {key!r}; absent keys the graph mentions: {sorted(k for k in allowed if not U.present(k, o))} in {short(o)}", Ws)
                            return
                # a failed evaluation stores nothing for the node that failed: the failing probe's dataset cache saw no set
                if injected:
                    for p, (cls, trig) in plan.items():
                        did = dataset_of(p)
                        kindp = pids.get(p)
                        if did is None or trig is not None or did not in program["datasets"]:
                            continue
                        single_impl = not program["datasets"][did].get("overloads")
                        if kindp in ("callback", "effect") or (kindp == "body" and single_impl):
                            # this dataset can never complete an evaluation, so nothing may ever be stored for it
                            cache = next((c for label, c in G.caches if label == f"ds{did}"), None)
                            if cache is not None and any(s[3] is cache for s in stores):
                                ctx.violation("stored-during-failed-evaluation", f"dataset {did} has a stored value although its {kindp} always raises", Ws)
                                return
            # steps in which no fault fired: same outcome as a fault-free, cache-free instance
            surfaced = set(map(id, chain(err))) if err is not None else set()
            if injected and any(id(x) not in surfaced for x in injected):
                # a fall-back (coalesce / switch default) absorbed a transient fault and its *successful* value may
                # legitimately have been stored by an enclosing cache: nothing failed at the boundary, so the
                # "failed evaluation stores nothing" clause says nothing about the rest of this history
                absorbed_at = n_stores if absorbed_at is None else absorbed_at
                ctx.count("faults_absorbed_by_fallback")
                # ... but only a fall-back may absorb it: with always-raising probes the eager reference, given the same
                # fault plan, says whether the semantics has a fall-back for this failure (coalesce member, default of a
                # switch / overload whose dispatch fails); if the reference fails, the exception was swallowed
                if err is None and all(trig is None for _c2, trig in plan.values()):
                    from ..ref import Ref

                    try:
                        rexp = Ref(program, faults=dict(plan)).run(o)
                    except RecursionError:
                        rexp = None
                    ctx.count("absorptions_checked_against_reference")
                    if rexp is not None and rexp[0] == "err":
                        ctx.violation("raised-exception-swallowed", f"step {step}: {[type(x).__name__ for x in injected]} raised by {sorted(plan)} did not surface: evaluate() gave {short(got)}, "
                                      f"the reference semantics with the same raising callables fails with {short(rexp)}", Ws)
                        return
            if not injected and absorbed_at is None:
                # a failure the eager reference semantics predicts (missing option, unmatched switch / case, value
                # outside its domain) must surface as a failure, and a predicted value must not turn into one
                from ..ref import Ref

                try:
                    rexp = Ref(program).run(o)
                except RecursionError:
                    rexp = None
                if rexp is not None and (rexp[0] == "err") != (err is not None):
                    ctx.violation("failure-swallowed-or-invented", f"step {step}: evaluate() gave {short(got)} but the eager reference semantics gives {short(rexp)}", Ws)
                    return
                ctx.count("outcomes_compared_with_reference")
                clean = build(program)
                with labrea.cache.disabled():
                    exp = observe(clean.root.evaluate, copy.deepcopy(o))
                ctx.count("post_failure_steps_compared")
                g2 = got if got[0] == "ok" else ("err",)
                e2 = exp if exp[0] == "ok" else ("err",)
                if g2 != e2:
                    ctx.violation("later-outcome-changed", f"step {step} (no fault fired): {short(got)} but a fault-free uncached instance gives {short(exp)}", Ws)
                    return
    # cache shadow: every stored value equals the fault-free uncached value for its recorded options
    log.faults = {}
    with log.shadowed():
        for ev, opts, val, cache in (stores if absorbed_at is None else stores[:absorbed_at]):
            with labrea.cache.disabled():
                exp = observe(ev.evaluate, opts)
            ctx.count("stores_verified")
            if exp != ("ok", val):
                ctx.violation("stored-value-wrong", f"cache holds {short(val)} for {short(opts)} but fault-free evaluation gives {short(exp)}", W)
                return
    if fired_any:
        ctx.nontrivial(spec_hash([program, sorted(plan.items()), history]))
        for p, (cls, trig) in plan.items():
            ctx.cover("fault_kinds", pids.get(p, "?"))
            ctx.cover("fault_classes", cls)
        ctx.sample({"program": program, "plan": {k: list(v) for k, v in plan.items()}, "history": history[:2]}, limit=2)


def _reads(program):
    from ..ref import Ref

    r = Ref(program)
    out = set(r.may_read(program["root"]))
    for did in program["datasets"]:
        out |= r.may_read({"k": "ds", "id": did})
    return out


def dataset_of(pid):
    if pid.startswith("ds"):
        return pid[2:].split(":")[0]
    if pid.startswith("cb"):
        return pid[2:]
    if pid.startswith("ef"):
        return pid[2:].split(".")[0]
    return None


def missing_then_supplied(ctx, program, r):
    """A failed evaluation stores nothing: supplying the missing option afterwards succeeds with the right value."""
    keys = sorted(k for k in mentioned_keys(program) if k in U.READ_KEYS)
    if not keys:
        return
    for _ in range(6):
        full = U.random_options(r, p_present=0.95, templated=0.0)
        full_out = observe(build(program).root.evaluate, copy.deepcopy(full))
        if full_out[0] != "ok":
            continue
        for k in r.sample(keys, min(3, len(keys))):
            _missing_then_supplied(ctx, program, full, full_out, k)


def _missing_then_supplied(ctx, program, full, full_out, k):
    G = build(program)
    partial = U.del_path(full, k)
    if partial == full:
        return
    first = observe(G.root.evaluate, copy.deepcopy(partial))
    second = observe(G.root.evaluate, copy.deepcopy(full))
    ctx.evaluations += 3
    if first[0] != "err":
        # no failed evaluation in this history: a stale second outcome would be C01's business (stale-hit monitor), not C12's
        ctx.count("missing_then_supplied_first_succeeded")
        return
    ctx.count("missing_then_supplied")
    ctx.nontrivial(spec_hash([program, partial, full]))
    if second != full_out:
        from ..findings import classify_fallback

        def rerun():
            G2 = build(program)
            observe(G2.root.evaluate, copy.deepcopy(partial))
            return int(observe(G2.root.evaluate, copy.deepcopy(full)) != observe(build(program).root.evaluate, copy.deepcopy(full)))

        # (the recorded C01 defect - inner values stored under a key set that misses an unexplainable present key - can
        #  surface here too: inner nodes stored by the failed evaluation are then served to the later one)
        ctx.violation("supplying-missing-option", f"after failing without {k} ({short(first)}) the full dictionary gives {short(second)}, a fresh instance gives {short(full_out)}",
                      {"program": program, "history": [partial, full], "plan": {}, "mechanism": classify_fallback(rerun)})


def plans_for(ctx, r, pids, exhaustive):
    items = sorted(pids)
    out = []
    if exhaustive:
        for p in items:
            for cls in CLASSES:
                for trig in TRIGGERS:
                    out.append({p: (cls, trig)})
    else:
        for _ in range(10):
            p = r.choice(items)
            out.append({p: (r.choice(CLASSES), r.choice(TRIGGERS))})
        for _ in range(4):
            if len(items) >= 2:
                a, b = r.sample(items, 2)
                out.append({a: (r.choice(CLASSES), r.choice(TRIGGERS)), b: (r.choice(CLASSES), r.choice(TRIGGERS))})
    return out


def dangling_family(ctx, r):
    """Failures that are NOT missing options of the graph itself but dangling template references inside present
    values, on graphs without any cache (caching computes keys() first and would mask a wrong report): the
    failure must surface, as a missing-key error naming the key that is really absent."""
    from ..ref import Ref, RefErr

    program = program_for(r, r.choice([1, 2]), features={"cached": False, "domains": False, "allopts": False}, n_datasets=r.choice([0, 1, 2]))
    for d in program["datasets"].values():
        d["cache"] = "nocache"
    dangling_cases(ctx, program, [U.random_options(r, p_present=0.8, templated=0.35) for _ in range(4)])


def dangling_cases(ctx, program, dictionaries):
    from ..ref import Ref, RefErr

    G = build(program)
    for o in dictionaries:
        ref = Ref(program)
        cands = None
        try:
            exp = ("ok", None)
            ref.eval(program["root"], o)
        except RefErr as e:
            exp = ("err", e.kind)
            cands = e.candidates
        except RecursionError:
            continue
        try:
            G.root.evaluate(copy.deepcopy(o))
            got = ("ok", None)
            err = None
        except BaseException as e:  # noqa: BLE001
            err = e
            got = ("err", type(e).__name__)
        ctx.evaluations += 1
        ctx.count("dangling_reference_cases")
        W = {"program": program, "history": [o], "plan": {}, "source": "dangling"}
        if (got[0] == "err") != (exp[0] == "err"):
            ctx.violation("failure-swallowed-or-invented", f"no-cache graph on {short(o)}: evaluate() {short(got)} but the eager reference semantics gives {short(exp)}", W)
            return
        if err is not None and exp[1] == "KeyNotFoundError" and "coalesce" not in kinds_of(program):
            if not isinstance(err, EvaluationError) or err.source is not G.root:
                ctx.violation("wrong-source", f"{type(err).__name__} with source {getattr(err, 'source', None)!r}", W)
                return
            knf = [x for x in chain(err) if isinstance(x, KeyNotFoundError)]
            ctx.count("dangling_missing_key_reports")
            # the order in which independent arguments are evaluated is not promised: every key the reference still
            # misses after the ones found so far have been supplied is a legitimate report
            cands = set(cands)
            o_sup = copy.deepcopy(o)
            for _ in range(6):
                for k in sorted(cands):
                    if isinstance(k, str) and U.lookup(k, o_sup) is U.ABSENT:
                        try:
                            o_sup = U.set_path(o_sup, k, "supplied")
                        except Exception:  # noqa: BLE001
                            pass
                try:
                    Ref(program).eval(program["root"], o_sup)
                    break
                except RefErr as e2:
                    if e2.kind != "KeyNotFoundError" or set(e2.candidates) <= cands:
                        break
                    cands |= set(e2.candidates)
                except RecursionError:
                    break
            def acceptable(key):
                # (supplying L.0 also creates L: an absent ancestor of a missing key is as truthful a report as the key)
                return key in cands or (isinstance(key, str) and U.lookup(key, o) is U.ABSENT and any(isinstance(c, str) and c.startswith(key + ".") for c in cands))

            if not knf or not acceptable(knf[-1].key):
                ctx.violation("missing-key-misreported", f"failure names {knf[-1].key if knf else None!r}; the keys that are really absent: {sorted(cands)} in {short(o)}", W)
                return
            ctx.nontrivial(spec_hash(["dangling", program, o]))


def failed_then_same_object(ctx, r, case):
    """A long-lived cached node whose body raises for some VALUES (a failure after the cache miss, not a missing key):
    the caller keeps ONE dictionary object, edits it in place between calls and mixes in fresh equal dictionaries.
    Every outcome must be what the value dictates at that moment - a failed evaluation leaves nothing behind (no stored
    value, no half-done bookkeeping in the backend) that changes a later outcome."""
    from labrea import Option, dataset
    from labrea.cache import MemoryCache, cached

    bad = set(r.sample(range(5), r.choice([1, 2, 3])))
    runs = []

    def body(x, y="-"):
        runs.append(x)
        if x in bad:
            raise ValueError(f"bad {x}")
        return ["v", x, y]

    shape = r.choice(["cached-apply", "cached-dataset", "dataset", "cached-over-cached"])
    if shape == "cached-apply":
        node = cached(Option("X") >> body, MemoryCache())
    elif shape == "cached-over-cached":
        node = cached(cached(Option("X") >> body, MemoryCache()), MemoryCache())
    else:
        ds = dataset(lambda x=Option("X"), y=Option("Y", "-"): body(x, y))
        node = ds if shape == "dataset" else cached(ds, MemoryCache())
    A = {"X": r.randrange(5)}
    trail = []
    for step in range(r.choice([4, 6, 9])):
        k = r.random()
        if k < 0.5:
            A["X"] = r.randrange(5)
            o, label = A, "same-object edit X"
        elif k < 0.65:
            A["Z"] = step
            o, label = A, "same-object edit of a key nobody reads"
        elif k < 0.8:
            o, label = A, "same-object again"
        else:
            o, label = {"X": r.randrange(5)}, "fresh"
        x = o["X"]
        y = o.get("Y", "-")
        exp = ("err", "ValueError") if x in bad else ("ok", canon(["v", x, y]))
        trail.append([label, copy.deepcopy(o)])
        try:
            got = ("ok", canon(node.evaluate(o)))
        except EvaluationError as e:
            got = ("err", type(chain(e)[-1]).__name__)
        except Exception as e:  # noqa: BLE001
            got = ("err-raw", type(e).__name__)
        ctx.evaluations += 1
        ctx.count("failed_then_same_object_steps")
        if got != exp:
            ctx.violation("failure-left-state-behind", f"{shape}, values {sorted(bad)} raise; step {step} ({label}) under {o}: {short(got)} but the value dictates {short(exp)}",
                          {"family": "failed-then-same-object", "case": case, "shard": ctx.shard, "shards": ctx.shards, "trail": trail[-4:]})
            return
    ctx.nontrivial(spec_hash(["failed-then-same-object", case, shape, sorted(bad)]))


def run(ctx):
    rng = ctx.rng
    for i in range(ctx.n(400, 8000)):
        dangling_family(ctx, case_rng(ctx, 5_000_000 + i))
        failed_then_same_object(ctx, case_rng(ctx, ("ftso", i)), i)
    dicts = [{}, {"A": 1}, {"A": 1, "B": "b", "D": "x"}, {"A": 2, "B": "b", "D": "y", "S": {"X": 1, "Y": 2}, "L": [1, 2]}, {"A": 1}, {"D": "x", "C": 3, "E": "y"},
             {"A": 1, "B": "b", "D": "x"}]
    for i, p in enumerate(directed.programs()):
        if i % ctx.shards != ctx.shard:
            continue
        name = p.pop("name")
        pids = fault_free_pass(p, dicts)
        if not pids:
            continue
        plans = plans_for(ctx, rng, pids, exhaustive=True)
        if ctx.quick:
            plans = rng.sample(plans, min(len(plans), 40))
        for plan in plans:
            run_plan(ctx, p, dicts, plan, pids, f"directed:{name}")
        missing_then_supplied(ctx, p, rng)
    if ctx.shard == 0:
        known_finding_reproducer(ctx)
        user_subclass_failures(ctx)
    n = ctx.n(400, 8000)
    for i in range(n):
        r = case_rng(ctx, i)
        program = program_for(r, r.choice([1, 2, 3]), n_datasets=r.choice([1, 2, 3]))
        keys = sorted(mentioned_keys(program)) or None
        hist = U.history(r, 5, keys, closed_only=True)
        pids = fault_free_pass(program, hist)
        missing_then_supplied(ctx, program, r)
        if not pids:
            continue
        for plan in plans_for(ctx, r, pids, exhaustive=False):
            run_plan(ctx, program, hist, plan, pids, "random")


def user_subclass_failures(ctx):
    """Failures inside user-defined Evaluatable hierarchies (a subclass of a user subclass overriding evaluate, a
    subclass of Option): the boundary error is an EvaluationError whose source is the object evaluate() was called on,
    and the chain passes through the failing object down to the original exception."""
    from labrea import Option, dataset
    from labrea.types import Evaluatable

    class Boom(Exception):
        pass

    class Base(Evaluatable):
        def evaluate(self, options):
            return options["A"]

        def validate(self, options):
            pass

        def keys(self, options):
            return set()

        def explain(self, options=None):
            return set()

        def __repr__(self):
            return type(self).__name__ + "()"

    class Leaf(Base):
        def evaluate(self, options):
            if options.get("A") == "bad":
                raise Boom("user failure in a derived evaluate")
            return ("leaf", options.get("A"))

    class Deeper(Leaf):
        def evaluate(self, options):
            if options.get("A") == "bad":
                raise Boom("user failure two levels down")
            return ("deeper", options.get("A"))

    class Checked(Option):
        def evaluate(self, options):
            v = options.get(self.key)
            if v == "bad":
                raise Boom("user failure in an Option subclass")
            return v

    for name, make in (("Leaf", Leaf), ("Deeper", Deeper), ("Checked", lambda: Checked("A"))):
        failing = make()
        graphs = {"direct": failing, "dataset argument": dataset.nocache(lambda x=failing: ("d", x)), "applied": failing >> (lambda v: ("f", v))}
        for how, g in graphs.items():
            for o in ({"A": 1}, {"A": "bad"}, {"A": 2}, {"A": "bad"}):
                ctx.evaluations += 1
                ctx.count("user_subclass_failure_steps")
                try:
                    g.evaluate(dict(o))
                    err = None
                except BaseException as e:  # noqa: BLE001
                    err = e
                W = {"family": "user-subclass-failures", "class": name, "how": how, "options": o}
                if (err is not None) != (o["A"] == "bad"):
                    ctx.violation("failure-swallowed-or-invented", f"{name} ({how}) on {o}: {'raised ' + type(err).__name__ if err else 'no failure'}", W)
                    return
                if err is None:
                    continue
                ch = chain(err)
                if not isinstance(err, EvaluationError) or err.source is not g:
                    ctx.violation("non-evaluationerror-escaped" if not isinstance(err, EvaluationError) else "wrong-source",
                                  f"{name} ({how}): evaluate() raised {type(err).__name__} with source {getattr(err, 'source', None)!r}", W)
                    return
                if not isinstance(ch[-1], Boom) or not any(isinstance(x, EvaluationError) and x.source is failing for x in ch):
                    ctx.violation("cause-chain-broken", f"{name} ({how}): chain {[type(x).__name__ + ':' + repr(getattr(x, 'source', ''))[:30] for x in ch]} does not pass through the failing object down to the original exception", W)
                    return
                ctx.nontrivial(spec_hash(["user-subclass-failure", name, how]))


KF_PROGRAM = {"datasets": {"1": {"args": [["a", {"k": "opt", "key": "A", "dk": "const", "dv": 0}]], "cache": "nocache", "dispatch": "D",
                                 "overloads": [["x", {"expr": {"k": "switch", "disp": {"k": "opt", "key": "E"}, "table": [["y", {"k": "const", "v": "e-y"}]]}}]]}},
              "root": {"k": "tuple", "items": [{"k": "cached", "spec": {"k": "coalesce", "members": [{"k": "ds", "id": "1"}, {"k": "const", "v": "fell-back"}]}},
                                               {"k": "opt", "key": "D"}]}}


def known_finding_reproducer(ctx):
    """Recorded finding fallback-unexplainable-present-key as it shows in a failing-then-succeeding history: the failed
    evaluation (D absent) stores the inner cached coalesce under a key set that omits D; with D supplied the stale inner
    value is served although the overload selected by D cannot be evaluated and the coalesce must fall back."""
    full = {"D": "x", "B": 1}
    _missing_then_supplied(ctx, KF_PROGRAM, full, observe(build(KF_PROGRAM).root.evaluate, copy.deepcopy(full)), "D")
    ctx.count("known_finding_witnesses")


def replay(ctx, rep):
    if rep["witness"].get("family") == "failed-then-same-object":
        w = rep["witness"]
        ctx.shard, ctx.shards = w.get("shard", 0), w.get("shards", 1)
        return failed_then_same_object(ctx, case_rng(ctx, ("ftso", w["case"])), w["case"])
    w = rep["witness"]
    if w.get("family") == "user-subclass-failures":
        user_subclass_failures(ctx)
        return
    if w.get("source") == "dangling":
        dangling_cases(ctx, w["program"], w["history"])
        return
    if rep.get("monitor") == "supplying-missing-option":
        partial, full = w["history"]
        k = next(k for k in U.leaf_paths(full) if U.lookup(k, partial) is U.ABSENT) if partial != full else None
        _missing_then_supplied(ctx, w["program"], full, observe(build(w["program"]).root.evaluate, copy.deepcopy(full)), k)
        return
    plan = {k: (v[0], v[1]) for k, v in w.get("plan", {}).items()}
    pids = fault_free_pass(w["program"], w["history"])
    run_plan(ctx, w["program"], w["history"], plan, pids, "replay")
