"""C02 — memoization is effective: one body run per relevant option assignment.

Monitors: probe execution log (bodies, callbacks, effects), request tap
(EvaluateRequest per dataset object with its options; CacheSetRequest values).
Oracle: over a whole history on one long-lived instance, the number of runs of a
memory-cached dataset's body is bounded by the number of distinct assignments of
the options it can read (syntactic may-read set with forced pre-sets shadowing
the caller's keys); repeats / noise keys / top-level permutations run nothing;
effects fire exactly once per computed (stored) value, with that value.
"""
import copy

from .. import boot  # noqa: F401
from labrea.dataset import Dataset

from .. import directed
from .. import universe as U
from ..build import build
from ..cases import case_rng, program_for
from ..gen import mentioned_keys, spec_hash
from ..outcome import canon, observe, short
from ..ref import Ref, _template_refs
from ..tap import Tap

PROPERTY = "C02"
LEVEL = "exploration"
RULE = (
    "case = (dataset DAG, history) on one long-lived instance; the tap records the options of every "
    "dataset evaluation, probes log body/effect runs.  Oracles: runs(body) <= #distinct projections "
    "of the evaluation options onto the dataset's may-read keys; after a successful evaluation the "
    "exact repeat, repeat+never-mentioned key and top-level permutation run no body/effect of a "
    "memory-cached dataset; effect calls == stored values (CacheSetRequest) in order and value. "
    "distinct = sha1(spec, history); non-trivial = at least one cached dataset was evaluated more "
    "often than its body ran (a hit was needed to satisfy the bound)."
)
ASSUMPTIONS = [
    "all probes total, dictionaries never contain the LABREA.* switches (those are C16)",
    "'options it depends on' is over-approximated by the syntactic may-read set, so a hit is never demanded that the property does not promise",
]
FLOORS = {"repeat_probes": (1500, 30000), "bound_checks": (800, 15000), "effect_sequences_checked": (150, 3000), "histories_needing_hits": (150, 3000), "rekeyed_overload_evaluations": (1200, 24000), "unrelated_value_probes": (500, 10000),
          "attach_family_evaluations": (1500, 30000), "attach_family_body_runs": (700, 14000), "attach_family_same_effect_attached_twice": (150, 3000)}
SHARDS_QUICK = 4
FEATURES = {"allopts": True, "preset_templates": False, "domains": False}


def projection(mr, o):
    if "*" in mr:
        return ("*", canon(o))
    keys = set(mr) | _template_refs(o)
    return tuple(sorted((k, repr(canon(v)) if v is not U.ABSENT else "<absent>") for k in keys for v in [U.lookup(k, o)]))


def run_history(ctx, program, history, tag="random"):
    G = build(program)
    log = G.log
    ref = Ref(program)
    datasets = program["datasets"]
    nocache = {did for did, d in datasets.items() if d.get("cache") == "nocache"}
    # group of Dataset objects sharing one Overloaded/cache  ->  set of assignment projections
    assignments = {}
    evals = {}
    sets = {}  # did -> [canon(value)] stored (CacheSetRequest) in order
    cache_owner = {}

    def refresh_owner():
        for label, cache in G.caches:
            cache_owner[id(cache)] = label

    def unshadowed_reads(did):
        """may-read set of the dataset definition with its own pre-sets taken out (they are applied to the
        options instead, see `effective`)."""
        stripped = copy.deepcopy(program)
        stripped["datasets"][did].pop("options", None)
        stripped["datasets"][did].pop("default_options", None)
        return Ref(stripped).may_read({"k": "ds", "id": did})

    def obj_spec(obj):
        """(group id, may-read set, (P, D)) for a built Dataset object; P / D are the total forced / default
        options of that object (declaration + with_options / with_default_options chain)."""
        did = G.dataset_ids.get(id(obj))
        if did is None:
            return None
        if "/" in did:  # dataset created by @overload: own cache, own args
            base, t = did.split("/", 1)
            for alias, impl in datasets[base].get("overloads", []):
                from ..build import overload_tag

                if overload_tag(alias, impl) == t:
                    mr = set()
                    for _, a in impl.get("args", []):
                        mr |= ref.may_read(a)
                    return did, mr, ({}, {})
            return None
        d = datasets[did]
        P, D = copy.deepcopy(d.get("options") or {}), copy.deepcopy(d.get("default_options") or {})
        if id(obj) in G.derived_specs:
            spec = G.derived_specs[id(obj)]
            if spec.get("P"):
                P = U.overlay(P, spec["P"])
            if spec.get("D"):
                D = U.overlay(D, spec["D"])
            for which, opts in spec.get("chain") or []:
                if which == "P":
                    P = U.overlay(P, opts)
                else:
                    D = U.overlay(D, opts)
        return did, unshadowed_reads(did), (P, D)

    spec_cache = {}

    def on_event(phase, kind, request, stack, result):
        if phase == "call" and kind == "evaluate" and isinstance(request.evaluatable, Dataset):
            key = id(request.evaluatable)
            if key not in spec_cache:
                spec_cache[key] = obj_spec(request.evaluatable)
            sp = spec_cache[key]
            if sp is None:
                return
            gid, mr, (P, D) = sp
            # the assignment the body can depend on: the effective (mixed) options projected on what it reads;
            # the original and every with_options / with_default_options derivative share one cache, so equal
            # effective assignments must share one body run
            effective = U.overlay(U.overlay(D, dict(request.options)), P)
            assignments.setdefault(gid, set()).add(projection(mr, effective))
            evals[gid] = evals.get(gid, 0) + 1
        elif phase == "return" and kind == "cache_set":
            label = cache_owner.get(id(request.cache))
            if label and label.startswith("ds"):
                sets.setdefault(label[2:], []).append(canon(request.value))

    refresh_owner()
    reads_everything = "*" in ref.may_read(program["root"])  # AllOptions: every key is referred to
    tap = Tap(on_event=on_event, keep=False)
    forbidden_kinds = ("body", "effect", "callback")

    def forbidden(events):
        out = []
        for e in events:
            if e[1] not in forbidden_kinds:
                continue
            pid = e[2]
            did = pid[2:].split(":")[0].split(".")[0]
            if did in nocache:
                continue
            out.append(e)
        return out

    with tap:
        seen_runs, seen_distinct, n_events = {}, {}, 0

        def per_step_bound(step):
            """The bound, step by step: the body runs a step adds to a dataset are at most the NEW assignments that step
            brought (an assignment met before was computed then - all probes are total, so it was stored)."""
            nonlocal n_events
            for e in log.events[n_events:]:
                if e[1] == "body":
                    did_, t_ = e[2][2:].split(":", 1)
                    if did_ in nocache:
                        continue
                    g_ = did_ if t_ == "default" or (did_, t_) not in G.overload_ds else f"{did_}/{t_}"
                    seen_runs[g_] = seen_runs.get(g_, 0) + 1
            n_events = len(log.events)
            for g_, n_ in seen_runs.items():
                if n_ > len(assignments.get(g_, ())):
                    return g_, n_, len(assignments.get(g_, ()))
            return None

        for step, o in enumerate(history):
            got = observe(G.root.evaluate, copy.deepcopy(o))
            ctx.evaluations += 1
            refresh_owner()
            over = per_step_bound(step)
            if over:
                ctx.violation("runs-exceed-distinct-assignments", f"step {step}: by now the body of dataset {over[0]} has run {over[1]} times but the dataset was evaluated under only {over[2]} distinct "
                              f"assignments of the options it can read", {"program": program, "history": history[: step + 1], "pid": over[0], "runs": over[1], "distinct": over[2], "source": tag})
                return
            if got[0] != "ok":
                continue
            rng = case_rng(ctx, step)
            # "unrelated": the VALUE of a present key that nothing can read changes (not in the may-read set of any
            # part of the program, not referred to by any templated value of the dictionary - escaped braces are text)
            unrelated = None
            if not reads_everything:
                everything = set(ref.may_read(program["root"])) | _template_refs(o)
                for did_ in datasets:
                    everything |= set(ref.may_read({"k": "ds", "id": did_}))
                free = [k for k in o if not any(k == x or x.startswith(k + ".") for x in everything) and not isinstance(o[k], (dict, list))]
                if free:
                    k = rng.choice(sorted(free))
                    unrelated = {**copy.deepcopy(o), k: ("changed", repr(o[k]))[0] + "-" + str(step)}
            for variant, o2 in (("repeat", copy.deepcopy(o)), ("noise", U.with_noise(rng, o)), ("permuted", U.permuted(rng, o)), ("unrelated", unrelated)):
                if o2 is None or (variant == "noise" and reads_everything):
                    continue
                if variant == "unrelated":
                    ctx.count("unrelated_value_probes")
                mark = log.mark()
                got2 = observe(G.root.evaluate, o2)
                ctx.evaluations += 1
                ctx.count("repeat_probes")
                bad = forbidden(log.since(mark))
                if bad or (variant == "repeat" and got2 != got):
                    ctx.violation(
                        f"rerun-on-{variant}",
                        f"step {step}: re-evaluating ({variant}) ran {[(e[1], e[2]) for e in bad][:6]} / value {short(got2)} vs {short(got)}",
                        {"program": program, "history": history[: step + 1], "variant": variant, "options2": o2, "source": tag},
                    )
                    return
    # global bound per body
    runs = {}
    for e in log.events:
        if e[1] == "body":
            runs[e[2]] = runs.get(e[2], 0) + 1
    needed_hits = False
    for pid, n in runs.items():
        did, t = pid[2:].split(":", 1)
        if did in nocache:
            continue
        gid = did if t == "default" or (did, t) not in G.overload_ds else f"{did}/{t}"
        distinct = len(assignments.get(gid, ()))
        ctx.count("bound_checks")
        if n > distinct:
            ctx.violation(
                "runs-exceed-distinct-assignments",
                f"body {pid} ran {n} times but dataset {gid} was evaluated under only {distinct} distinct assignments of the options it can read",
                {"program": program, "history": history, "pid": pid, "runs": n, "distinct": distinct, "source": tag},
            )
            return
        if evals.get(gid, 0) > n:
            needed_hits = True
    # effects: one call per stored value, with that value, in order
    eff = {}
    for e in log.events:
        if e[1] == "effect":
            eff.setdefault(e[2], []).append(e[3])
    for did, d in datasets.items():
        k = len(d.get("effects", []))
        if not k:
            continue
        stored = sets.get(did, [])
        for i in range(k):
            seen = eff.get(f"ef{did}.{i}", [])
            ctx.count("effect_sequences_checked")
            if seen != stored:
                ctx.violation(
                    "effects-vs-stored-values",
                    f"effect {i} of dataset {did} saw {len(seen)} values, {len(stored)} values were computed+stored; first difference at "
                    f"{next((j for j, (a, b) in enumerate(zip(seen, stored)) if a != b), min(len(seen), len(stored)))}",
                    {"program": program, "history": history, "dataset": did, "effect": i, "source": tag},
                )
                return
    # effect order: the k-th effect call of a dataset comes after the k-th run of one of its bodies
    for did, d in datasets.items():
        if not d.get("effects") or d.get("expr") is not None or any("args" not in impl for _, impl in d.get("overloads", [])):
            continue
        bodies = [e[0] for e in log.events if e[1] == "body" and e[2].startswith(f"ds{did}:")]
        effs = [e[0] for e in log.events if e[1] == "effect" and e[2] == f"ef{did}.0"]
        if len(bodies) == len(effs) and any(b > f for b, f in zip(bodies, effs)):
            ctx.violation("effect-before-body", f"dataset {did}: an effect ran before the body that produced its value",
                          {"program": program, "history": history, "dataset": did, "source": tag})
            return
    if needed_hits:
        ctx.count("histories_needing_hits")
        ctx.nontrivial(spec_hash([program, history]))
        ctx.sample({"program": program, "history": history[:2], "body_runs": runs, "dataset_evaluations": evals,
                    "distinct_assignments": {k: len(v) for k, v in assignments.items()}}, limit=2)


def plain_history(rng, length, keys):
    return U.history(rng, length, keys, templated=0.05, closed_only=True)


def attach_family(ctx, r, case):
    """Effects attached at different times to RELATED dataset objects: bases made from one configured decorator,
    derivatives (with_options / with_default_options, derivatives of derivatives), late add_effect / add_effects.

    Model: every object has its own multiset of attached effects; a derivative starts with a copy of its source's
    multiset at derivation time.  For every evaluation of X that executed its body `runs` times (0 on a hit of the
    shared cache): each effect fires >= attached[X] * runs times, and at most that plus the attachments made to an
    object X was derived from AFTER the derivation (whether those propagate is not promised either way).  Effects
    attached only to derivatives or siblings of X must not fire for X's body executions."""
    from labrea import Option, dataset
    from labrea.cache import MemoryCache, NoCache

    calls, runs, seen_values = [], [0, 0], []
    script = []

    def mk_body(i):
        def body(a=Option("A", 0), b=Option("S.X", "sx")):
            runs[i] += 1
            return ("v", i, a, b)

        body.__name__ = f"attach_body{i}"
        return body

    def mk(name):
        def eff(value):
            calls.append(name)
            seen_values.append(value)
            return ("returned-by", name)

        eff.__name__ = name
        return eff

    names = ["e0", "e1", "e2", "e3"]
    effs = {n: mk(n) for n in names}
    ctor = r.sample(names, r.choice([0, 1, 1, 2]))
    nocache = r.random() < 0.5
    kw = {"effects": [effs[n] for n in ctor]}
    deco = dataset(cache=NoCache() if nocache else MemoryCache, **kw) if ctor or r.random() < 0.5 else (dataset.nocache if nocache else dataset)
    script.append(["decorator", ctor, "nocache" if nocache else "memory"])
    objs, attached, parent, late_anc, body_of = [], [], [], [], []
    n_bases = r.choice([1, 1, 2])
    for i in range(n_bases):
        form = r.choice(["call", "wrap"]) if hasattr(deco, "wrap") else "call"
        objs.append(deco(mk_body(i)) if form == "call" else deco.wrap(mk_body(i)))
        attached.append(list(ctor)); parent.append(None); late_anc.append([]); body_of.append(i)
        script.append(["base", i, form])
    pool = [{}, {"A": 1}, {"A": 2}, {"S": {"X": 1}}, {"A": 1, "S": {"X": 1, "Y": 2}}, {"N1": 0}]
    W = {"case": case, "shard": ctx.shard, "shards": ctx.shards, "script": script}
    for _ in range(r.choice([6, 9, 12])):
        act = r.choice(["derive", "attach", "eval", "eval"])
        x = r.randrange(len(objs))
        if act == "derive" and len(objs) < 6:
            kind, opts = r.choice(["with_options", "with_default_options"]), r.choice([{"A": 7}, {"S": {"X": "p"}}, {"B": 1}, {}])
            objs.append(getattr(objs[x], kind)(copy.deepcopy(opts)))
            attached.append(list(attached[x])); parent.append(x); late_anc.append([]); body_of.append(body_of[x])
            script.append(["derive", x, kind, opts])
        elif act == "attach":
            ns = r.sample(names, r.choice([1, 1, 2]))
            api = r.choice(["add_effects", "add_effect"])
            if api == "add_effects":
                objs[x].add_effects(*[effs[n] for n in ns])
            else:
                for n in ns:
                    objs[x].add_effect(effs[n])
            attached[x] += ns
            # every existing descendant of x may or may not see the late attachment
            for y in range(len(objs)):
                a = parent[y]
                while a is not None:
                    if a == x:
                        late_anc[y] += ns
                        break
                    a = parent[a]
            script.append(["attach", x, ns, api])
        else:
            o = copy.deepcopy(r.choice(pool))
            del calls[:]
            del seen_values[:]
            before = list(runs)
            out = observe(objs[x].evaluate, o)
            ctx.evaluations += 1
            script.append(["eval", x, o])
            if out[0] != "ok":
                ctx.violation("attach-family-evaluation-failed", f"evaluation failed: {short(out)}", W)
                return
            k = runs[body_of[x]] - before[body_of[x]]
            ctx.count("attach_family_evaluations")
            if k:
                ctx.count("attach_family_body_runs")
            if out[0] == "ok" and any(canon(v) != out[1] for v in seen_values):
                ctx.violation("effects-vs-stored-values", f"object {x}: an effect was called with {short([canon(v) for v in seen_values])}, the body's value is {short(out[1])} "
                              f"(every effect receives the value of the body, whatever earlier effects returned)", W)
                return
            if any(len(set(attached[y])) < len(attached[y]) for y in range(len(objs))):
                ctx.count("attach_family_same_effect_attached_twice")
            for n in names:
                lo = attached[x].count(n) * k
                hi = lo + late_anc[x].count(n) * k
                got = calls.count(n)
                if not lo <= got <= hi:
                    ctx.violation("effect-calls-vs-attachments", f"object {x} executed its body {k} time(s); effect {n} is attached to it {attached[x].count(n)} time(s) "
                                  f"but was called {got} time(s) (attachments per object: {attached})", W)
                    return
            if len(objs) > 1 and k:
                ctx.nontrivial(spec_hash(script))


def rekeyed_overloads(ctx, r, case):
    """Implementations that are datasets themselves, registered BEFORE the dispatch exists (and before it is replaced),
    then reached both through the dispatching parent and directly / through a shared dependency: each body still runs
    once per distinct assignment of the options it reads - over the whole history, whichever way it was reached - and
    an effect attached to the implementation the user holds runs once per run of its body."""
    from labrea import Option, dataset

    runs = {"base": [], "impl": [], "default": []}
    eff_calls = {"early": 0, "late": 0}

    def base_body(a=Option("A", 0)):
        runs["base"].append(a)
        return ("base", a)

    base = dataset(base_body)

    def early_eff(v):
        eff_calls["early"] += 1

    def late_eff(v):
        eff_calls["late"] += 1

    def impl_body(x=base, b=Option("B", 0)):
        runs["impl"].append((x, b))
        return ("impl", x, b)

    impl = dataset(impl_body, effects=[early_eff])

    def default_body(c=Option("C", 0)):
        runs["default"].append(c)
        return ("default", c)

    script = []
    first = r.choice(["none", "key"])
    parent = dataset(default_body) if first == "none" else dataset(default_body, dispatch="E")
    parent.register("alt", impl)
    script.append(["dispatch-at-definition", first])
    if r.random() < 0.5:
        parent.register("other", Option("C", "other-impl"))
    new_disp = r.choice(["D", "opt-default"])
    parent.set_dispatch("D" if new_disp == "D" else Option("D", "none"))
    script.append(["set_dispatch", new_disp])
    late = r.random() < 0.6
    if late:
        impl.add_effects(late_eff)
        script.append(["add_effects on the implementation"])

    def consumer_body(p=parent, q=impl, z=base):
        return ("consumer", p, q, z)

    consumer = dataset(consumer_body)
    seen = {"base": set(), "impl": set(), "default": set()}
    trail = []
    for step in range(r.choice([4, 6, 8])):
        o = {}
        if r.random() < 0.8:
            o["D"] = r.choice(["alt", "alt", "none", "other"])
        for k in ("A", "B", "C"):
            if r.random() < 0.6:
                o[k] = r.choice([1, 2])
        subject = r.choice([consumer, consumer, parent, impl])
        trail.append([o, "consumer" if subject is consumer else ("parent" if subject is parent else "impl")])
        got = observe(subject.evaluate, copy.deepcopy(o))
        ctx.evaluations += 1
        ctx.count("rekeyed_overload_evaluations")
        W = {"family": "rekeyed-overloads", "case": case, "shard": ctx.shard, "shards": ctx.shards, "script": script, "trail": trail}
        if got[0] != "ok":
            ctx.violation("rekeyed-overload-fails", f"step {step}: {trail[-1]} raised {short(got)}", W)
            return
        a, b, c, d = o.get("A", 0), o.get("B", 0), o.get("C", 0), o.get("D", "none" if new_disp != "D" else None)
        needs_impl = subject is not parent or d == "alt"
        needs_default = subject is not impl and d not in ("alt", "other") or (subject is not impl and d == "other" and "other" not in parent.overloads.lookup)
        if needs_impl:
            seen["base"].add(a)
            seen["impl"].add((a, b))
        if subject is consumer:
            seen["base"].add(a)
        if needs_default:
            seen["default"].add((o.get("D", "<absent>"), c))  # (the parent's own store is keyed by its dispatch key too)
        for name in runs:
            if len(runs[name]) > len(seen[name]):
                ctx.violation("runs-exceed-distinct-assignments", f"step {step}: body '{name}' has run {len(runs[name])} times over a history with only {len(seen[name])} distinct assignments of the "
                              f"options it reads (script {script}, last {trail[-1]})", W)
                return
        expect_eff = len(runs["impl"])
        if eff_calls["early"] != expect_eff or (late and eff_calls["late"] > expect_eff):
            ctx.violation("effect-count", f"step {step}: the implementation's body ran {expect_eff} time(s) but its effects ran {eff_calls} (script {script})", W)
            return
    if len(runs["impl"]) and len(trail) > len(runs["impl"]):
        ctx.nontrivial(spec_hash(["rekeyed", script, trail]))


def run(ctx):
    rng = ctx.rng
    for i in range(ctx.n(600, 12000)):
        attach_family(ctx, case_rng(ctx, ("attach", i)), i)
        if i % 2 == 0:
            rekeyed_overloads(ctx, case_rng(ctx, ("rekey", i)), i)
    dicts = [d for d in directed.dictionaries() if not any(k.startswith("LABREA") for k in d)]
    for i, p in enumerate(directed.programs()):
        if i % ctx.shards != ctx.shard or not p["datasets"]:
            continue
        name = p.pop("name")
        run_history(ctx, p, dicts + dicts[::3], tag=f"directed:{name}")
        keys = sorted(mentioned_keys(p)) or None
        for _ in range(4 if ctx.quick else 20):
            run_history(ctx, p, plain_history(rng, 8, keys), tag=f"directed:{name}")
    n = ctx.n(1600, 16000)
    depth = 2 if ctx.quick else 3
    for i in range(n):
        r = case_rng(ctx, i)
        program = program_for(r, r.choice([1, 2, depth]), features=FEATURES, n_datasets=r.choice([2, 3, 4, 5]))
        # root: make sure datasets are used (tuple of the last datasets + random root)
        ids = list(program["datasets"])
        program["root"] = {"k": "tuple", "items": [{"k": "ds", "id": ids[-1]}, program["root"]]} if r.random() < 0.7 else {"k": "ds", "id": ids[-1]}
        keys = sorted(mentioned_keys(program)) or None
        run_history(ctx, program, plain_history(r, 6 if ctx.quick else 10, keys))


def replay(ctx, rep):
    w = rep["witness"]
    if w.get("family") == "rekeyed-overloads":
        ctx.shard, ctx.shards = w.get("shard", 0), w.get("shards", 1)
        rekeyed_overloads(ctx, case_rng(ctx, ("rekey", w["case"])), w["case"])
        return
    if "script" in w:
        ctx.shard, ctx.shards = w.get("shard", 0), w.get("shards", 1)
        attach_family(ctx, case_rng(ctx, ("attach", w["case"])), w["case"])
        return
    run_history(ctx, w["program"], w["history"], tag="replay")
