"""C05 — combinators evaluate to what the equivalent eager Python computation yields.

Monitor: boundary recorder on evaluate(); oracle: the independent reference
interpreter (lvf.ref) run on the same spec and options.
"""
import copy
import itertools

from .. import boot  # noqa: F401
import labrea.cache

from .. import directed
from .. import universe as U
from ..build import build
from ..cases import case_rng, program_for
from ..gen import mentioned_keys, spec_hash
from ..outcome import canon, observe, short
from ..ref import Ref, kinds_of

PROPERTY = "C05"
LEVEL = "exploration"
RULE = (
    "cases = (program, options) with program from the directed families and from the seeded "
    "random generator (depth<=3 quick / <=4 thorough); each case is evaluated on the real code "
    "(uncached, and on a cold cached instance) and by the independent reference interpreter; "
    "distinct = sha1(spec, options); non-trivial = the reference outcome is a value and the "
    "program contains at least one branching/looping combinator, or the outcome is a "
    "no-branch-applies failure (SwitchError / CaseWhenError)."
)
ASSUMPTIONS = [
    "dispatch values hashable; user functions total on generated inputs",
    "one-shot iterables are consumed once inside the harness",
    "failure *kind* is compared loosely inside coalesce (validate order vs evaluate order may name a different member's failure)",
]
FLOORS = {"compared": (1500, 30000), "ok_values": (600, 12000), "no_branch_failures": (40, 800), "map_pairs_checked": (30, 300), "map_under_dataset_steps": (150, 3000)}
COVER = {"kinds_ok": ["switch", "case", "coalesce", "bind", "map", "list", "tuple", "set", "dict", "apply", "ds", "tmpl", "with", "cached", "dc"]}
SHARDS_QUICK = 4

BRANCHING = {"switch", "case", "coalesce", "bind", "map", "ds"}


def compare(ctx, program, o, built=None, tag="random"):
    ref = Ref(program)
    try:
        exp = ref.run(o)
    except RecursionError:
        return
    b = built or build(program)
    with labrea.cache.disabled():
        got = observe(b.root.evaluate, o)
    ctx.evaluations += 1
    ctx.count("compared")
    ks = kinds_of(program)
    lenient = "coalesce" in ks
    ok = got[0] == exp[0] and (got[1] == exp[1] if got[0] == "ok" else (got[1] == exp[1] or lenient))
    if got[0] == "err" and exp[0] == "err" and got[1] != exp[1]:
        ctx.count("kind_mismatch_tolerated_in_coalesce")
    if not ok:
        ctx.violation(
            "real-vs-reference",
            f"evaluate() = {short(got)} but the eager reference yields {short(exp)}",
            {"program": program, "options": o, "real": repr(got), "ref": repr(exp), "source": tag},
        )
        return
    # a cold cached instance must agree as well (same value with caches on)
    cold = observe(build(program).root.evaluate, o)
    ctx.evaluations += 1
    if not (cold[0] == got[0] and (cold[1] == got[1] if cold[0] == "ok" else True)):
        ctx.violation(
            "cold-vs-uncached",
            f"cold cached instance {short(cold)} != uncached {short(got)}",
            {"program": program, "options": o, "real": repr(cold), "ref": repr(exp), "source": tag},
        )
        return
    if exp[0] == "ok":
        ctx.count("ok_values")
        for k in ks:
            ctx.cover("kinds_ok", k)
        if ks & BRANCHING:
            ctx.nontrivial(spec_hash([program, o]))
    elif exp[1] in ("SwitchError", "CaseWhenError"):
        ctx.count("no_branch_failures")
        ctx.cover("failure_kinds", exp[1])
        ctx.nontrivial(spec_hash([program, o]))
    else:
        ctx.cover("failure_kinds", exp[1])
    ctx.sample({"program": program, "options": o, "outcome": short(got, 200)}, limit=3)


def map_semantics(ctx, rng):
    """Map: one (assignment, result) pair per element of the product, in order,
    each evaluated with that assignment overriding the caller's options."""
    keys = rng.sample(["A", "B", "S.X", "S.Y", "T.X"], rng.choice([1, 2, 3, 3]))  # (S.X and S.Y: two mapped keys inside ONE section)
    lists = [[rng.choice(U.SCALARS) for _ in range(rng.choice([0, 1, 2, 3]))] for _ in keys]
    body = {"k": "tuple", "items": [{"k": "opt", "key": k, "dk": "const", "dv": "dflt"} for k in ["A", "B", "S.X", "S.Y", "T.X"]]}
    program = {"datasets": {}, "root": {"k": "map", "body": body, "iters": [[k, {"k": "const", "v": l}] for k, l in zip(keys, lists)]}}
    o = U.random_options(rng, templated=0.0)
    b = build(program)
    expected = []
    for combo in itertools.product(*lists):
        oo = copy.deepcopy(o)
        for k, v in zip(keys, combo):
            oo = U.overlay(oo, U._nest(k, v)) if "." in k else {**oo, k: v}
        try:
            vals = Ref({"datasets": {}, "root": body}).eval(body, oo)
        except Exception:  # noqa: BLE001  (dangling template reference in the dictionary)
            return
        expected.append((dict(zip(keys, combo)), vals))
    try:
        got = list(b.root.evaluate(o))
    except Exception as e:  # noqa: BLE001
        ctx.violation("map-product", f"Map raised {type(e).__name__}: {e}", {"program": program, "options": o})
        return
    ctx.evaluations += 1
    ctx.count("map_pairs_checked", len(expected))
    if canon(got) != canon(expected):
        ctx.violation("map-product", f"Map pairs {short(got)} != product semantics {short(expected)}",
                      {"program": program, "options": o, "real": repr(got), "ref": repr(expected)})
    elif len(expected) > 1:
        ctx.nontrivial(spec_hash([program, o]))
    # the same Map consumed by a memoising dataset, one long-lived instance over dictionaries that differ in members the
    # assignment does NOT pre-set (siblings inside a pre-set section included): every element still sees the caller's
    # current value for those
    body2 = {"k": "tuple", "items": body["items"] + [{"k": "opt", "key": k, "dk": "const", "dv": "dflt"} for k in ("S", "T")]}
    the_map = {"k": "map", "body": body2, "iters": program["root"]["iters"]}
    program2 = {"datasets": {"1": {"args": [["m", {"k": "apply", "src": the_map, "fn": "f1", "n": 1}], ["c", {"k": "opt", "key": "C", "dk": "const", "dv": 0}]]}},
                "root": {"k": "ds", "id": "1"}}
    b2 = build(program2)
    seq = [o]
    for _ in range(3):
        nxt, _, _ = U.perturb(rng, rng.choice(seq), ["A", "B", "C", "S.X", "S.Y", "T.X", "S", "T"], kinds=("change", "delete", "add"), closed_only=True)
        seq.append(nxt)
    seq.append(copy.deepcopy(o))
    for step, oo in enumerate(seq):
        try:
            exp = Ref(program2).run(copy.deepcopy(oo))
        except RecursionError:
            return
        got = observe(b2.root.evaluate, copy.deepcopy(oo))
        ctx.evaluations += 1
        ctx.count("map_under_dataset_steps")
        if not (got[0] == exp[0] and got[1] == exp[1]):
            ctx.violation("map-under-dataset", f"step {step}: a long-lived dataset consuming the Map gives {short(got)} on {short(oo)}, the eager product semantics yield {short(exp)}",
                          {"program": program2, "history": seq[: step + 1], "real": repr(got), "ref": repr(exp)})
            return


def collection_order(ctx, rng):
    items = [rng.choice(U.SCALARS) for _ in range(rng.choice([2, 3, 4]))]
    keys = rng.sample(["k1", "k2", "k3", "k4", 0, 1], len(items))
    b = build({"datasets": {}, "root": {"k": "dict", "items": [[k, {"k": "const", "v": v}] for k, v in zip(keys, items)]}})
    got = b.root.evaluate({})
    ctx.evaluations += 1
    ctx.count("dict_order_checked")
    if list(got.items()) != list(dict(zip(keys, items)).items()):
        ctx.violation("collection-order", f"dict order {list(got.items())} != {list(zip(keys, items))}", {"keys": keys, "items": items})


def hostile_history(ctx, program, base, r, case, tag="random"):
    """One long-lived instance (caching off, so only per-object memos / aliasing / leftover state can interfere) driven
    through a hostile history (lvf.hostile): each outcome must equal the eager reference on a private copy of the
    dictionary as it is at that moment.  Bodies and steps edit their own arguments in place, the driver scribbles over
    every returned value."""
    from .. import hostile
    from ..outcome import err_outcome

    G = build(program, mutate_args=True)
    keys = sorted(k for k in mentioned_keys(program) if k in U.READ_KEYS)
    lenient = "coalesce" in kinds_of(program)
    trail = []
    for label, obj in hostile.steps(r, base, keys):
        snap = copy.deepcopy(obj)
        trail.append([label, snap])
        try:
            exp = Ref(program).run(copy.deepcopy(snap))
        except RecursionError:
            return
        raw = None
        try:
            with labrea.cache.disabled():
                raw = G.root.evaluate(obj)
                got = ("ok", canon(raw))
        except RecursionError:
            return
        except Exception as e:  # noqa: BLE001
            got = err_outcome(e)
        ctx.evaluations += 1
        ctx.count("hostile_steps")
        ctx.count("hostile_" + label.split(" ")[0].replace("-", "_"))
        ok = got[0] == exp[0] and (got[1] == exp[1] if got[0] == "ok" else (got[1] == exp[1] or lenient))
        if not ok:
            ctx.violation("hostile-history", f"step {len(trail)} ({label}) on one long-lived instance: evaluate() = {short(got)} but the eager reference on a copy of that dictionary yields {short(exp)}",
                          {"family": "hostile", "program": program, "base": base, "case": case, "shard": ctx.shard, "shards": ctx.shards, "trail": trail[-3:], "source": tag})
            return
        if raw is not None:
            hostile.scribble(raw)
    if len(trail) > 2:
        ctx.nontrivial(spec_hash(["hostile", program, base, case]))


def run(ctx):
    rng = ctx.rng
    dicts = directed.dictionaries()
    progs = directed.programs()
    # directed families: every shard runs a slice
    for i, p in enumerate(progs):
        if i % ctx.shards != ctx.shard:
            continue
        name = p.pop("name")
        b = build(p)
        for o in dicts:
            compare(ctx, p, o, built=b, tag=f"directed:{name}")
        for _ in range(10):
            compare(ctx, p, U.random_options(rng), built=b, tag=f"directed:{name}")
    n = ctx.n(700, 24000)
    depth = 3 if ctx.quick else 4
    for i in range(n):
        r = case_rng(ctx, i)
        program = program_for(r, r.choice([1, 2, 3, depth]))
        b = build(program)
        for _ in range(4):
            compare(ctx, program, U.random_options(r), built=b)
        if i % 10 == 0:
            map_semantics(ctx, r)
            collection_order(ctx, r)
        hostile_history(ctx, program, U.random_options(r, p_present=0.75), case_rng(ctx, ("hostile", i)), i)


def replay(ctx, rep):
    w = rep["witness"]
    if w.get("family") == "hostile":
        ctx.shard, ctx.shards = w.get("shard", 0), w.get("shards", 1)
        hostile_history(ctx, w["program"], w["base"], case_rng(ctx, ("hostile", w["case"])), w["case"], "replay")
    elif "history" in w:
        b = build(w["program"])
        for oo in w["history"]:
            got, exp = observe(b.root.evaluate, copy.deepcopy(oo)), Ref(w["program"]).run(copy.deepcopy(oo))
            ctx.evaluations += 1
            if not (got[0] == exp[0] and got[1] == exp[1]):
                ctx.violation("map-under-dataset", f"a long-lived dataset consuming the Map gives {short(got)} on {short(oo)}, the eager product semantics yield {short(exp)}", w)
                return
    elif "program" in w and "options" in w:
        compare(ctx, w["program"], w["options"], tag="replay")
