"""C10 — validate, keys and evaluate agree about whether options suffice.

Monitors: boundary recorder (success / failure class of the three operations on
the same (graph, options), cold and warm), probe execution log during
validate() / keys().
"""
import copy

from .. import boot  # noqa: F401
import labrea.cache
from labrea import Option, dataset

from .. import directed
from .. import universe as U
from ..build import build
from ..cases import case_rng, program_for
from ..gen import mentioned_keys, spec_hash
from ..outcome import observe, short
from ..ref import Ref
from .c06 import selector_datasets

PROPERTY = "C10"
LEVEL = "exploration"
RULE = (
    "case = (program with total probes, dictionary without dangling references and with in-domain values) on a cold "
    "instance and on an instance warmed by other dictionaries: the success bits of validate(o), keys(o), evaluate(o) "
    "must be equal; with partial bodies (a fault plan makes a body raise on its n-th call) a passing validate(o) must "
    "not be followed by a missing-option failure of evaluate(o); bodies that run during validate()/keys() must belong "
    "to selector datasets (dispatch, bind/case source, Map iterable).  distinct = sha1(program, o); non-trivial = the "
    "three operations fail together, or succeed on a program with at least one option without default."
)
ASSUMPTIONS = [
    "premise of the property: option values inside their declared domains (random programs carry no domains; defaults outside their own domain are never generated)",
    "dictionaries are closed under template references (AllOptions.keys() never fails while resolving the whole dictionary can)",
]
FLOORS = {"triples_compared": (6000, 100000), "fail_together": (1500, 30000), "succeed_together": (2000, 40000), "warm_triples": (2000, 40000),
          "partial_body_cases": (200, 4000), "validate_keys_body_checks": (6000, 100000),
          "datasetclass_triples": (1000, 20000), "datasetclass_fail_together": (150, 3000),
          "pipeline_triples": (1000, 20000), "pipeline_fail_together": (50, 1000), "default_body_checks": (1200, 12000), "lazy_coalesce_triples": (96, 96), "effects_off_triples": (48, 48), "whole_dictionary_triples": (40, 40)}
SHARDS_QUICK = 4
FEATURES = {"domains": False, "allopts": False}


def ops(G, o, disabled=True):
    out = {}
    for op in ("validate", "keys", "evaluate"):
        mark = G.log.mark()
        if disabled:
            with labrea.cache.disabled():
                out[op] = observe(getattr(G.root, op), copy.deepcopy(o))
        else:
            out[op] = observe(getattr(G.root, op), copy.deepcopy(o))
        out[op + "_bodies"] = [e[2] for e in G.log.since(mark, ("body",))]
    return out


def triple(ctx, program, o, G, sel, warm, tag):
    res = ops(G, o, disabled=not warm)
    ctx.evaluations += 3
    ctx.count("triples_compared")
    if warm:
        ctx.count("warm_triples")
    bits = {k: res[k][0] == "ok" for k in ("validate", "keys", "evaluate")}
    W = {"program": program, "options": o, "warm": warm, "outcomes": {k: short(res[k], 120) for k in ("validate", "keys", "evaluate")}, "source": tag}
    if bits["validate"] and bits["keys"] and not bits["evaluate"] and res["evaluate"][1] == "TypeError":
        # outside the property's premise (total bodies): a built-in collection constructor (set / dict of an unhashable
        # option value) is itself partial on this input - confirmed by the independent reference, which fails the same way
        from ..ref import Ref

        if Ref(program).run(copy.deepcopy(o))[:2] == ("err", "TypeError"):
            ctx.count("skipped_partial_builtin")
            return True
    if len(set(bits.values())) != 1:
        W["mechanism"] = mechanism(program, o, bits)
        ctx.violation("operations-disagree", f"validate {short(res['validate'], 70)} / keys {short(res['keys'], 70)} / evaluate {short(res['evaluate'], 70)}", W)
        return False
    for op in ("validate", "keys"):
        ctx.count("validate_keys_body_checks")
        extra = [p for p in res[op + "_bodies"] if p[2:].split(":")[0] not in sel]
        if extra:
            ctx.violation("body-ran-during-" + op, f"{op}() ran bodies {extra[:5]} which select no branch", W)
            return False
    if bits["evaluate"]:
        ctx.count("succeed_together")
        if any(n.get("k") == "opt" and "dk" not in n for n in nodes(program)):
            ctx.nontrivial(spec_hash([program, o]))
    else:
        ctx.count("fail_together")
        ctx.nontrivial(spec_hash([program, o]))
    return True


def nodes(program):
    from ..ref import dataset_children, walk

    yield from walk(program["root"])
    for d in program["datasets"].values():
        for sp in dataset_children(d):
            yield from walk(sp)


def mechanism(program, o, bits):
    return None


def partial_bodies(ctx, program, o, r):
    """Bodies may raise: validate() passing still guarantees evaluate() does not fail for a missing option."""
    G = build(program)
    v = observe(G.root.validate, copy.deepcopy(o))
    if v[0] != "ok":
        return
    pids = sorted({f"ds{did}:default" for did in program["datasets"]})
    if not pids:
        return
    G2 = build(program)
    for p in r.sample(pids, min(2, len(pids))):
        G2.log.faults[p] = (r.choice(["ValueError", "ZeroDivisionError", "InjectedFault"]), r.choice([None, [0]]))
    v2 = observe(G2.root.validate, copy.deepcopy(o))
    e2 = observe(G2.root.evaluate, copy.deepcopy(o))
    ctx.evaluations += 3
    ctx.count("partial_body_cases")
    if v2[0] == "ok" and e2[0] == "err" and e2[1] == "KeyNotFoundError":
        W = {"program": program, "options": o, "faults": {k: list(v_) for k, v_ in G2.log.faults.items()}}
        from ..ref import kinds_of

        if G2.log.raised and "coalesce" in kinds_of(program):
            # predicate: a body raised during this evaluation and a coalesce fell through to later members;
            # neutralisation: without the raising body the same evaluation succeeds
            G3 = build(program)
            if observe(G3.root.evaluate, copy.deepcopy(o))[0] == "ok":
                W["mechanism"] = "coalesce-reports-last-members-missing-key"
        ctx.violation("validate-passed-but-option-missing", f"validate passed, evaluate failed with missing option {e2[2]!r}", W)


def known_finding_reproducer(ctx):
    """Recorded finding: an effect that needs an option is outside keys() - exercised cold and warm, with caching
    on and switched off by either option spelling or by the context manager.  Only the exact recorded pattern
    (keys ok, validate and evaluate both fail, and with the option supplied all three agree) is attributed to
    the finding; any other disagreement - e.g. validate passing on a warm cache while evaluate fails - is not."""
    import labrea.cache as lc

    def sink(v):
        return None

    modes = ["on", "DISABLED", "DISABLE", "context"]
    for warm in (False, True):
        for mode in modes:
            @dataset(effects=[Option("CB")])
            def d(a=Option("A", 1)):
                return a

            if warm:
                d.evaluate({"A": 2, "CB": sink})
            for cb_present in (False, True):
                o = {"A": 2}
                if cb_present:
                    o["CB"] = sink
                if mode == "DISABLED":
                    o["LABREA"] = {"CACHE": {"DISABLED": True}}
                elif mode == "DISABLE":
                    o["LABREA"] = {"CACHE": {"DISABLE": True}}
                res = {}
                for op in ("validate", "keys", "evaluate"):
                    if mode == "context":
                        with lc.disabled():
                            res[op] = observe(getattr(d, op), dict(o))
                    else:
                        res[op] = observe(getattr(d, op), dict(o))
                bits = {k: v[0] == "ok" for k, v in res.items()}
                ctx.evaluations += 3
                ctx.count("effect_option_switch_cases")
                served_from_cache = warm and mode == "on"
                expected_ok = cb_present or served_from_cache  # a stored value needs neither validation nor effects
                if len(set(bits.values())) == 1:
                    if bits["evaluate"] != expected_ok:
                        ctx.violation("operations-disagree", f"effect option {'present' if cb_present else 'absent'}, warm={warm}, cache {mode}: all three "
                                      f"{'succeed' if bits['evaluate'] else 'fail'} unexpectedly", {"options": repr(o), "warm": warm, "mode": mode})
                        return
                    continue
                mech = None
                if not cb_present and bits["keys"] and not bits["validate"] and not bits["evaluate"]:
                    mech = "effect-option-outside-keys"  # (neutralisation = the cb_present iteration of this loop agrees)
                ctx.violation("operations-disagree", f"dataset with an effect reading option CB ({'present' if cb_present else 'absent'}), warm={warm}, cache {mode}: "
                              f"validate {short(res['validate'], 50)} keys {short(res['keys'], 50)} evaluate {short(res['evaluate'], 50)}",
                              {"mechanism": mech, "options": repr(o), "warm": warm, "mode": mode})
                if mech is None:
                    return


def effects_switched_off(ctx):
    """An effect that needs an option, with effects switched OFF (per-dataset toggle, or the option switch): the effect
    is out of the picture for all three operations - with its option absent validate, keys and evaluate all succeed,
    cold and warm, for the dataset and for a dataset downstream of it."""
    from labrea import pipeline_step

    @pipeline_step
    def audit(value, tag=Option("AUDIT.TAG")):
        return None

    for how in ("toggle", "option", "toggle+option"):
        for kind in ("memory", "nocache"):
            base = (dataset.nocache if kind == "nocache" else dataset)(lambda x=Option("X", 1): ("base", x), effects=[audit])
            report = dataset.nocache(lambda b=base: ("report", b))
            if "toggle" in how:
                base.disable_effects()
            for o in ({}, {"X": 2}, {"X": 2}, {"X": 3, "AUDIT": {"TAG": "t"}}):
                o2 = dict(o)
                if "option" in how:
                    o2["LABREA"] = {"EFFECTS": {"DISABLED": True}}
                for subject, label in ((base, "dataset"), (report, "downstream dataset")):
                    res = {op: observe(getattr(subject, op), copy.deepcopy(o2)) for op in ("validate", "keys", "evaluate")}
                    ctx.evaluations += 3
                    ctx.count("effects_off_triples")
                    if any(v[0] != "ok" for v in res.values()):
                        ctx.violation("operations-disagree", f"effects switched off ({how}), effect option absent, {kind} {label} on {o}: validate {short(res['validate'], 60)} / "
                                      f"keys {short(res['keys'], 60)} / evaluate {short(res['evaluate'], 60)}", {"family": "effects-off", "how": how, "cache": kind, "options": repr(o2)})
                        return


def coalesce_reproducer(ctx):
    program = {"datasets": {"1": {"args": [["a", {"k": "opt", "key": "A", "dk": "const", "dv": 0}]]}},
               "root": {"k": "coalesce", "members": [{"k": "ds", "id": "1"}, {"k": "tmpl", "text": "{D}", "params": []}]}}

    class R:
        def sample(self, items, n):
            return list(items)[:n]

        def choice(self, items):
            return items[0]

    partial_bodies(ctx, program, {"A": 1}, R())


def datasetclass_triples(ctx, i):
    """Dataset classes (generated like C19's: inherited members, dotted keys, dispatching members): validate, keys and
    instantiation (= evaluate) succeed or fail together, and instantiating under exactly the reported keys succeeds."""
    from .c19 import gen_options, make_class

    r = case_rng(ctx, ("dc", i))
    cls, members, raw = make_class(r)
    relevant = sorted({k for _, ks in members.values() for k in ks})
    for _ in range(4):
        o = gen_options(r, relevant)
        for k in r.sample(relevant, min(len(relevant), r.choice([0, 1, 2]))):
            o = U.del_path(o, k)
        res = {"validate": observe(cls.validate, copy.deepcopy(o)), "keys": observe(cls.keys, copy.deepcopy(o)), "evaluate": observe(cls, copy.deepcopy(o))}
        ctx.evaluations += 3
        ctx.count("datasetclass_triples")
        bits = {k: v[0] == "ok" for k, v in res.items()}
        W = {"family": "datasetclass", "case": i, "shard": ctx.shard, "shards": ctx.shards, "members": {k: list(v) for k, v in members.items()}, "options": o}
        if len(set(bits.values())) != 1:
            ctx.violation("operations-disagree", f"dataset class: validate {short(res['validate'], 70)} / keys {short(res['keys'], 70)} / instantiation {short(res['evaluate'], 70)}", W)
            return
        if not bits["evaluate"]:
            ctx.count("datasetclass_fail_together")
        ctx.nontrivial(spec_hash(["dc", sorted(members.items()), o]))


def whole_dictionary(ctx):
    """AllOptions evaluates to the WHOLE dictionary with every templated string in it resolved: on a dictionary with a
    reference to a key that is not there evaluate() fails - and so do validate() and keys() (alone, as a dataset
    argument, under a template parameter); on a closed dictionary all three succeed."""
    from labrea import AllOptions, Template, dataset

    def body(everything=AllOptions, a=Option("A", 0)):
        return (sorted(everything), a)

    subjects = {"AllOptions": AllOptions, "dataset(AllOptions)": dataset(body), "nocache-dataset(AllOptions)": dataset.nocache(body),
                "template-parameter": Template("{:p:}", p=AllOptions >> (lambda d: sorted(d)))}
    dicts = [{}, {"A": 1}, {"A": "{B}", "B": 2}, {"A": "{B}"}, {"A": 1, "D": "{Q}"}, {"S": {"X": "{T.X}"}}, {"S": {"X": "{T.X}"}, "T": {"X": 3}}, {"L": ["{A}"]}, {"L": ["{A}"], "A": "a"},
             {"C": {"k": ["x{Q}y"]}}]
    for name, subject in subjects.items():
        for o in dicts:
            res = {op: observe(getattr(subject, op), copy.deepcopy(o)) for op in ("validate", "keys", "evaluate")}
            ctx.evaluations += 3
            ctx.count("whole_dictionary_triples")
            if len({v[0] == "ok" for v in res.values()}) != 1:
                ctx.violation("operations-disagree", f"{name} on {o}: validate {short(res['validate'], 70)} / keys {short(res['keys'], 70)} / evaluate {short(res['evaluate'], 70)}",
                              {"family": "whole-dictionary", "subject": name, "options": o})
                return
            if res["evaluate"][0] != "ok":
                ctx.count("whole_dictionary_fail_together")
    ctx.nontrivial(spec_hash(["whole-dictionary"]))


def lazy_coalesce_members(ctx):
    """Coalesce members whose value is lazy (a bare Iter / Map / Map.values): the member evaluate() uses is the one
    validate() and keys() chose - consuming the result cannot fail for an option validate() did not ask for."""
    from labrea import Coalesce, Iter, Map, Option

    lazy = {
        "iter": lambda: Iter(Option("X"), Option("Y")),
        "map": lambda: Map(Option("B"), {"A": Option("XS")}),
        "map-values": lambda: Map(Option("B"), {"A": Option("XS")}).values,
        "iter-of-map": lambda: Iter(Map(Option("B"), {"A": Option("XS")}).values, Option("X")),
    }
    dicts = [{}, {"X": 1}, {"X": 1, "Y": 2}, {"XS": [3, 6]}, {"XS": [3, 6], "B": "b"}, {"XS": [], "X": 0}, {"X": 1, "XS": [1], "B": 0, "Y": None}, {"F": "given"}]
    for name, make in lazy.items():
        for shape in ("lazy-first", "lazy-middle", "lazy-last"):
            fb = Option("F", "fallback")
            members = {"lazy-first": [make(), fb], "lazy-middle": [Option("Q"), make(), fb], "lazy-last": [Option("Q"), make()]}[shape]
            c = Coalesce(*members)
            for o in dicts:
                res = {op: observe(getattr(c, op), copy.deepcopy(o)) for op in ("validate", "keys", "evaluate")}  # observe() consumes lazy results
                ctx.evaluations += 3
                ctx.count("lazy_coalesce_triples")
                bits = {k: v[0] == "ok" for k, v in res.items()}
                if len(set(bits.values())) != 1:
                    ctx.violation("operations-disagree", f"coalesce with a lazy member ({name}, {shape}) on {o}: validate {short(res['validate'], 60)} / keys {short(res['keys'], 60)} / "
                                  f"evaluate-and-consume {short(res['evaluate'], 80)}", {"family": "lazy-coalesce", "member": name, "shape": shape, "options": o})
                    return
                ctx.nontrivial(spec_hash(["lazy-coalesce", name, shape, o]))


def default_body_family(ctx, i):
    """Options whose default is a dataset (with / without a domain, a chained default, a namespace member), key absent or
    present, cold and warm: validate() and keys() choose no branch here, so they run no dataset body; evaluate() runs
    the default's body only while the key is absent; with a partial body a passing validate() is not turned into a
    failure that names no missing option."""
    from labrea import Option, dataset

    from ..probes import Log

    r = case_rng(ctx, ("defbody", i))
    log = Log()

    def source(scale=Option("SCALE", 1)):
        log.hit("body", "source")
        if scale == -1:
            raise ValueError("partial body")
        return 2

    src = (dataset.nocache if r.random() < 0.5 else dataset)(source)
    domain = r.choice([None, [1, 2, 3], (lambda v: isinstance(v, int))])
    kw = {"default": r.choice([src, Option("OTHER", default=src)])}
    if domain is not None:
        kw["domain"] = domain
    opt = Option("LEVEL", **kw)
    consumer = dataset.nocache(lambda level=opt: ("c", level))
    for subject, label in ((opt, "option"), (consumer, "dataset argument")):
        for o in ({}, {"LEVEL": 3}, {"SCALE": 5}, {"SCALE": -1}, {"LEVEL": 2, "SCALE": -1}):
            for op in ("validate", "keys"):
                mark = log.mark()
                res = observe(getattr(subject, op), dict(o))
                ran = [e[2] for e in log.since(mark, ("body",))]
                ctx.evaluations += 1
                ctx.count("default_body_checks")
                W = {"family": "default-body", "case": i, "shard": ctx.shard, "shards": ctx.shards, "options": o, "op": op, "subject": label}
                if ran:
                    ctx.violation("body-ran-during-" + op, f"{op}() of an {label} whose default is a dataset (domain={'yes' if domain is not None else 'no'}) on {o} ran {ran}: "
                                  "an option's default chooses no branch", W)
                    return
                if res[0] != "ok":
                    ctx.violation("operations-disagree", f"{op}() of the {label} on {o} fails with {short(res)} although no option is missing", W)
                    return
            mark = log.mark()
            ev = observe(subject.evaluate, dict(o))
            ran = [e[2] for e in log.since(mark, ("body",))]
            # (with the key absent the body runs unless the default dataset serves a stored value)
            if ("LEVEL" in o and ran) or (ev[0] == "err") != ("LEVEL" not in o and o.get("SCALE") == -1):
                ctx.violation("default-body-at-evaluation", f"evaluate() of the {label} on {o}: {short(ev)}, bodies {ran}", {"family": "default-body", "case": i, "shard": ctx.shard, "shards": ctx.shards, "options": o})
                return
    ctx.nontrivial(spec_hash(["default-body", i]))


def pipeline_triples(ctx, i):
    """Multi-step pipelines with option-valued step parameters (some required), alone and applied to a source with
    >>: validate, keys and evaluate succeed or fail together (steps are total)."""
    from labrea import Option
    from labrea.pipeline import Pipeline

    from .c13 import OPTIONS, STEP_NAMES, make_steps

    r = case_rng(ctx, ("pipe", i))
    table = make_steps()
    names = [r.choice(STEP_NAMES) for _ in range(r.choice([1, 2, 2, 3, 4]))]
    pipe = Pipeline()
    for n in names:
        pipe = pipe + table[n][0]()
    o = copy.deepcopy(r.choice(OPTIONS))
    for subject, label in ((pipe, "pipeline"), (Option("X0", ("x",)) >> pipe, "source >> pipeline")):
        res = {op: observe(getattr(subject, op), copy.deepcopy(o)) for op in ("validate", "keys", "evaluate")}
        ctx.evaluations += 3
        ctx.count("pipeline_triples")
        bits = {k: v[0] == "ok" for k, v in res.items()}
        if len(set(bits.values())) != 1:
            ctx.violation("operations-disagree", f"{label} of steps {names} on {short(o)}: validate {short(res['validate'], 60)} / keys {short(res['keys'], 60)} / evaluate {short(res['evaluate'], 60)}",
                          {"family": "pipeline", "case": i, "shard": ctx.shard, "shards": ctx.shards, "steps": names, "options": repr(o)})
            return
        if not bits["evaluate"]:
            ctx.count("pipeline_fail_together")
        if len(names) >= 2:
            ctx.nontrivial(spec_hash(["pipe", names, repr(o), label]))


def run(ctx):
    rng = ctx.rng
    for i in range(ctx.n(300, 6000)):
        datasetclass_triples(ctx, i)
    for i in range(ctx.n(600, 12000)):
        pipeline_triples(ctx, i)
    for i in range(ctx.n(80, 800)):
        default_body_family(ctx, i)
    if ctx.shard == 0:
        known_finding_reproducer(ctx)
        coalesce_reproducer(ctx)
        lazy_coalesce_members(ctx)
        effects_switched_off(ctx)
        whole_dictionary(ctx)
    # (a dict-valued option referenced mid-string is the recorded C09 finding: str(dict) has braces)
    dicts = [d for d in directed.dictionaries() if U.closed(d) and not any(isinstance(d.get(k), dict) for k in ("A", "B", "C"))
             and not any(isinstance(v2, dict) for v in d.values() if isinstance(v, dict) for v2 in v.values())]
    for i, p in enumerate(directed.programs()):
        if i % ctx.shards != ctx.shard:
            continue
        name = p.pop("name")
        if name in ("domain", "uc-domain-spec", "kf-fallback-unexplainable"):
            continue
        sel = selector_datasets(p)
        Gw = build(p)
        for o in dicts:
            if not triple(ctx, p, o, build(p), sel, False, f"directed:{name}"):
                break
            triple(ctx, p, o, Gw, sel, True, f"directed:{name}")
    n = ctx.n(1500, 24000)
    for i in range(n):
        r = case_rng(ctx, i)
        program = program_for(r, r.choice([1, 2, 3]), features=FEATURES, n_datasets=r.choice([0, 1, 2, 3]))
        sel = selector_datasets(program)
        keys = sorted(mentioned_keys(program)) or None
        Gw = build(program)
        # dangling template references are allowed here: a present-but-unresolvable value must fail all three
        for o in U.history(r, 4, keys, p_present=0.7, closed_only=False):
            if not triple(ctx, program, o, build(program), sel, False, "random"):
                break
            if not triple(ctx, program, o, Gw, sel, True, "random"):
                break
        if i % 3 == 0:
            partial_bodies(ctx, program, U.random_options(r, p_present=0.8, closed_only=True), r)


def replay(ctx, rep):
    w = rep["witness"]
    if w.get("family") == "whole-dictionary":
        whole_dictionary(ctx)
    elif w.get("family") == "effects-off":
        effects_switched_off(ctx)
    elif w.get("family") == "lazy-coalesce":
        lazy_coalesce_members(ctx)
    elif w.get("family") == "default-body":
        ctx.shard, ctx.shards = w.get("shard", 0), w.get("shards", 1)
        default_body_family(ctx, w["case"])
    elif w.get("family") == "pipeline":
        ctx.shard, ctx.shards = w.get("shard", 0), w.get("shards", 1)
        pipeline_triples(ctx, w["case"])
    elif w.get("family") == "datasetclass":
        ctx.shard, ctx.shards = w.get("shard", 0), w.get("shards", 1)
        datasetclass_triples(ctx, w["case"])
    elif "program" in w:
        triple(ctx, w["program"], w["options"], build(w["program"]), selector_datasets(w["program"]), False, "replay")
    else:
        known_finding_reproducer(ctx)
