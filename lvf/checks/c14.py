"""C14 — handler scoping: the entered runtime serves; leaving a block restores the prior.

Monitor: every Request.run() is answered by a handler that returns its own tag;
oracle: a stack model (runtime = held handlers; lookup = held, else the default
registered NOW, else TypeError; enter pushes, exit pops).  State invariants are
checked after every program.
"""
import itertools
import threading

from .. import boot  # noqa: F401
from labrea import runtime as rt

from ..cases import case_rng
from ..gen import spec_hash

PROPERTY = "C14"
LEVEL = "exploration"
RULE = (
    "program = well-nested tree of enter / exit / exit-by-exception / derive (from the current runtime or from a "
    "named runtime in another context) / fresh Runtime / register-default-for-a-new-type / run-request over 3 "
    "request types, 3 handler tags and runtime objects that are reused and re-entered while active; executed in a "
    "new thread that either has no runtime yet or already has one; every run is compared with the stack model and "
    "after the program the thread must serve as before.  distinct = sha1(program); non-trivial = the program "
    "re-enters an active runtime, reuses a runtime object, exits by exception, starts without a runtime or "
    "registers a default late, and runs at least one request after an exit."
)
ASSUMPTIONS = ["when a default is re-registered, a runtime created while the earlier default was registered may serve either (the statement does not say); a runtime that predates the first registration must serve the current one"]
FLOORS = {"programs": (15000, 150000), "runs_compared": (60000, 600000), "exits_by_exception": (3000, 30000),
          "reentered_active": (600, 6000), "started_without_runtime": (4000, 40000), "late_defaults": (3000, 30000), "default_reregistrations": (800, 8000),
          "library_derived_blocks": (1500, 15000), "requests_whose_handler_raised": (1000, 10000), "reinherit_from_runtimeless_thread": (800, 8000), "succession_threads": (3500, 35000), "succession_threads_without_runtime": (2000, 20000), "lazy_consumptions": (800, 8000), "lazy_consumed_inside_block": (400, 4000)}
SHARDS_QUICK = 4


class Boom(Exception):
    pass


def make_types():
    ns = {}
    for name in ("T0", "T1", "T2"):
        ns[name] = type(name, (rt.Request,), {"__init__": lambda self: None})
    return ns


class FalsyHandler:
    """A perfectly good handler whose truth value is False (an empty call recorder, a handler object with __len__)."""

    def __init__(self, tag):
        self.tag = tag

    def __call__(self, request):
        return self.tag

    def __len__(self):
        return 0


def tagger(tag):
    if tag == "h3":
        return FalsyHandler(tag)

    def handler(request):
        if tag == "kerr":
            # a handler may fail like any other code: its exception belongs to the caller, the request is not
            # handed to another handler
            raise KeyError("raised by the handler that serves the request")
        return tag

    handler.tag = tag
    return handler


# ---- program generation ---------------------------------------------------

TAGS = ["h1", "h2", "h3", "kerr"]


def gen_block(r, depth, size, names, lz=None):
    """Statements: ("run", T) ("with", rtexpr, block, raises) ("derive", name, src, T, tag)
    ("fresh", name, {T: tag}) ("regdefault", T, tag); ("lazy", name, kind) evaluates an Iter / Map (a lazily produced
    iterable), ("next", name) / ("drain", name) consume it later - inside whatever block is active by then."""
    lz = [] if lz is None else lz
    out = []
    n = r.choice([1, 2, 3]) if depth else r.choice([2, 3, 4])
    for _ in range(n):
        if size[0] <= 0:
            break
        size[0] -= 1
        k = r.random()
        if k < 0.24:
            out.append(["run", r.choice(["T0", "T1", "T2"])])
        elif k < 0.35:
            if lz and r.random() < 0.7:
                out.append([r.choice(["next", "next", "drain"]), r.choice(lz)])
            else:
                lz.append(f"z{len(lz)}")
                out.append(["lazy", lz[-1], r.choice(["iter", "map"])])
            out.append(["run", r.choice(["T0", "T1", "T2"])])
        elif k < 0.65 and depth < 4:
            choice = r.random()
            if choice < 0.12:
                # a runtime the library derives itself from the CURRENT runtime (overrides only its own request types)
                expr = ["lib", r.choice(["cache.disabled", "logging.disabled"])]
            elif choice < 0.45 or not names:
                expr = ["handle", r.choice(["T0", "T1", "T2"]), r.choice(TAGS)]  # with handle(T, h): derive from current
            else:
                expr = ["name", r.choice(names)]
            body = gen_block(r, depth + 1, size, names, lz)
            out.append(["with", expr, body, r.random() < 0.25])
        elif k < 0.8:
            name = f"r{len(names)}"
            src = ["current"] if r.random() < 0.5 or not names else ["name", r.choice(names)]
            out.append(["derive", name, src, r.choice(["T0", "T1", "T2"]), r.choice(TAGS)])
            names.append(name)
        elif k < 0.9:
            name = f"r{len(names)}"
            hs = {t: r.choice(TAGS) for t in r.sample(["T0", "T1", "T2"], r.choice([0, 1, 2]))}
            out.append(["fresh", name, hs])
            names.append(name)
        else:
            out.append(["regdefault", "T1", "late"])
    return out


def gen_program(r, size):
    names = []
    return {"start_with_runtime": r.random() < 0.6, "block": gen_block(r, 0, [size], names)}


# ---- model ----------------------------------------------------------------


class Held(dict):
    """Handlers a runtime holds (given at construction / inherited through handle()), plus `snap`: the defaults
    that were registered when it (or the runtime it derives from) was created."""

    def __init__(self, held=(), snap=None):
        super().__init__(held)
        self.snap = dict(snap or {})


class Model:
    def __init__(self, start_with_runtime):
        self.defaults = {"T0": "default0"}
        self.objs = {}  # name -> Held
        self.stack = [Held({}, self.defaults)] if start_with_runtime else []
        self.base_exists = start_with_runtime

    def current(self):
        if not self.stack:
            # first use creates a default runtime for the thread, which then stays
            self.stack.append(Held({}, self.defaults))
            self.implicit_base = True
        return self.stack[-1]

    def lookup(self, T):
        """Set of acceptable answers.  A held handler serves; else the default registered NOW.  If the default
        was RE-registered after this runtime was created, the statement does not say whether the runtime keeps
        the one it was created with, so both are accepted - but a runtime that predates the first registration
        can only ever serve the current one."""
        held = self.current()
        if T in held:
            return {held[T]}
        cur = self.defaults.get(T, "TypeError")
        return {cur, held.snap[T]} if T in held.snap else {cur}


# ---- execution --------------------------------------------------------------


def execute(program):
    """Run the program on the real runtime in a new thread, the model alongside.
    Returns (mismatch or None, stats)."""
    types = make_types()
    rt.handle_by_default(types["T0"], tagger("default0"))
    model = Model(program["start_with_runtime"])
    real = {}
    lazies = {}
    stats = {"runs": 0, "exc_exits": 0, "reentered": 0, "late": 0, "run_after_exit": 0}
    result = {}
    late_registered = [0]
    exited = [False]

    def run_block(block, active):
        for st in block:
            op = st[0]
            if op == "run":
                T = st[1]
                exp = model.lookup(T)
                try:
                    got = types[T]().run()
                except TypeError:
                    got = "TypeError"
                except KeyError:
                    got = "kerr"
                    stats["handler_raised"] = stats.get("handler_raised", 0) + 1
                stats["runs"] += 1
                if exited[0]:
                    stats["run_after_exit"] += 1
                if got not in exp:
                    raise Mismatch(f"run({T}) answered by {got!r}, model says {sorted(exp)!r}", st)
            elif op == "lazy":
                # the result of an Iter / Map is produced item by item, whenever (and wherever) the caller asks for the next one
                from labrea import Iter, Map, Option

                ev = Iter(Option("A", 1), Option("B", 2), Option("C", 3)) if st[2] == "iter" else Map(Option("A"), {"A": [1, 2, 3]})
                model.current()  # (an evaluation gives a thread without a runtime its base runtime, like any request)
                lazies[st[1]] = iter(ev.evaluate({}))
            elif op in ("next", "drain"):
                it = lazies[st[1]]
                model.current()
                if op == "next":
                    next(it, None)
                else:
                    for _ in it:
                        pass
                stats["lazy_consumptions"] = stats.get("lazy_consumptions", 0) + 1
                if active or model.stack[1:]:
                    stats["lazy_consumed_inside_block"] = stats.get("lazy_consumed_inside_block", 0) + 1
            elif op == "with":
                expr = st[1]
                if expr[0] == "lib":
                    import labrea.cache
                    import labrea.logging

                    cur_ = model.current()
                    held = Held(cur_, {**model.defaults, **cur_.snap})
                    obj = labrea.cache.disabled() if expr[1] == "cache.disabled" else labrea.logging.disabled()
                    name = None
                    stats["lib_blocks"] = stats.get("lib_blocks", 0) + 1
                elif expr[0] == "handle":
                    cur_ = model.current()
                    held = Held(cur_, {**model.defaults, **cur_.snap})
                    held[expr[1]] = expr[2]
                    obj = rt.handle(types[expr[1]], tagger(expr[2]))
                    name = None
                else:
                    name = expr[1]
                    held, obj = model.objs[name], real[name]
                if name is not None and name in active:
                    stats["reentered"] += 1
                try:
                    with obj:
                        model.stack.append(held)
                        try:
                            run_block(st[2], active + ([name] if name else []))
                            if st[3]:
                                stats["exc_exits"] += 1
                                raise Boom()
                        finally:
                            model.stack.pop()
                            exited[0] = True
                except Boom:
                    pass
            elif op == "derive":
                _, name, src, T, tag = st
                if src[0] == "current":
                    parent_held = model.current()
                    parent = rt.current_runtime()
                else:
                    parent_held, parent = model.objs[src[1]], real[src[1]]
                before = dict(parent.handlers)
                new = parent.handle(types[T], tagger(tag))
                if dict(parent.handlers) != before:
                    raise Mismatch("deriving a runtime altered the runtime it derives from", st)
                model.objs[name] = Held({**parent_held, T: tag}, {**model.defaults, **parent_held.snap})
                real[name] = new
            elif op == "fresh":
                _, name, hs = st
                model.objs[name] = Held(hs, model.defaults)
                real[name] = rt.Runtime({types[t]: tagger(g) for t, g in hs.items()})
            elif op == "regdefault":
                # first registration of a default for T1, later ones re-register it with a new tag
                late_registered[0] += 1
                tag = f"{st[2]}{late_registered[0]}"
                stats["late"] += 1
                if late_registered[0] > 1:
                    stats["rereg"] = stats.get("rereg", 0) + 1
                rt.handle_by_default(types[st[1]], tagger(tag))
                model.defaults[st[1]] = tag

    class Mismatch(Exception):
        def __init__(self, msg, st):
            super().__init__(msg)
            self.st = st

    def body():
        try:
            if program["start_with_runtime"]:
                rt.current_runtime()
            run_block(program["block"], [])
            # after the program: the thread serves exactly as its base does
            me = threading.current_thread()
            cur = rt._RUNTIMES.get(me, "absent")
            if cur is None or (cur != "absent" and not isinstance(cur, rt.Runtime)):
                raise Mismatch(f"after the program the thread's runtime slot holds {cur!r}", ["end"])
            del model.stack[1:]
            for T in ("T0", "T1", "T2"):
                exp = model.lookup(T)
                try:
                    got = types[T]().run()
                except TypeError:
                    got = "TypeError"
                except KeyError:
                    got = "kerr"
                except Exception as e:  # noqa: BLE001
                    got = f"{type(e).__name__}: {e}"
                stats["runs"] += 1
                if got not in exp:
                    raise Mismatch(f"after the program run({T}) answered by {got!r}, the restored base should answer {sorted(exp)!r}", ["end"])
        except Mismatch as m:
            result["mismatch"] = (str(m), m.st)
        except Exception as e:  # noqa: BLE001
            result["mismatch"] = (f"unexpected {type(e).__name__}: {e}", ["?"])

    t = threading.Thread(target=body, name="c14-worker", daemon=True)
    t.start()
    t.join(30)
    if t.is_alive():
        result["hung"] = True
    # (a worker that hangs may hang while holding the library's lock: nothing more can be run in this process then)
    if rt.lock.acquire(timeout=10 if t.is_alive() else -1):
        try:
            rt._RUNTIMES.pop(t, None)
            for T in types.values():
                rt._DEFAULT_HANDLERS.pop(T, None)
        finally:
            rt.lock.release()
    else:
        result["wedged"] = True
    return result, stats


DIRECTED = [
    # an iterable produced under one runtime, consumed piecemeal inside another block and after it
    {"start_with_runtime": True, "block": [["with", ["handle", "T1", "h1"], [["lazy", "z0", "iter"], ["run", "T1"]], False], ["with", ["handle", "T1", "h2"], [["next", "z0"], ["run", "T1"]], False], ["run", "T1"],
                                           ["drain", "z0"], ["run", "T1"], ["run", "T0"]]},
    {"start_with_runtime": False, "block": [["fresh", "r0", {"T2": "h1"}], ["with", ["name", "r0"], [["lazy", "z0", "map"], ["next", "z0"], ["run", "T2"]], False], ["run", "T2"],
                                            ["with", ["handle", "T2", "h2"], [["next", "z0"], ["run", "T2"]], True], ["run", "T2"], ["drain", "z0"], ["run", "T2"]]},
    {"start_with_runtime": True, "block": [["fresh", "r0", {}], ["run", "T1"], ["regdefault", "T1", "late"], ["with", ["name", "r0"], [["run", "T1"]], False], ["run", "T1"], ["regdefault", "T1", "late"],
                                            ["run", "T1"], ["with", ["name", "r0"], [["run", "T1"], ["derive", "r1", ["current"], "T2", "h1"], ["with", ["name", "r1"], [["run", "T1"]], False]], False], ["run", "T1"]]},
    {"start_with_runtime": True, "block": [["fresh", "r0", {"T2": "h1"}], ["with", ["name", "r0"], [["with", ["name", "r0"], [["run", "T2"]], False], ["run", "T2"]], False], ["run", "T2"], ["run", "T0"]]},
    {"start_with_runtime": False, "block": [["fresh", "r0", {"T2": "h1"}], ["with", ["name", "r0"], [["run", "T2"]], False], ["run", "T0"], ["run", "T2"]]},
    {"start_with_runtime": False, "block": [["with", ["handle", "T1", "h2"], [["run", "T1"]], True], ["run", "T1"], ["run", "T0"]]},
    {"start_with_runtime": True, "block": [["run", "T1"], ["regdefault", "T1", "late"], ["run", "T1"], ["with", ["handle", "T2", "h3"], [["run", "T1"], ["run", "T2"]], False], ["run", "T1"]]},
    {"start_with_runtime": True, "block": [["fresh", "r0", {}], ["regdefault", "T1", "late"], ["with", ["name", "r0"], [["run", "T1"], ["run", "T0"]], False]]},
    {"start_with_runtime": True, "block": [["derive", "r0", ["current"], "T2", "h1"], ["with", ["handle", "T2", "h2"], [["with", ["name", "r0"], [["run", "T2"]], True], ["run", "T2"]], False], ["run", "T2"]]},
    {"start_with_runtime": True, "block": [["fresh", "r0", {"T0": "h1"}], ["derive", "r1", ["name", "r0"], "T1", "h2"], ["with", ["name", "r1"], [["run", "T0"], ["run", "T1"], ["with", ["name", "r0"], [["run", "T1"], ["with", ["name", "r1"], [["run", "T1"]], True]], False], ["run", "T1"]], False], ["run", "T0"]]},
]


def run_one(ctx, program, tag):
    result, stats = execute(program)
    ctx.evaluations += 1
    ctx.count("programs")
    ctx.count("runs_compared", stats["runs"])
    ctx.count("exits_by_exception", stats["exc_exits"])
    ctx.count("reentered_active", stats["reentered"])
    ctx.count("late_defaults", stats["late"])
    ctx.count("default_reregistrations", stats.get("rereg", 0))
    ctx.count("library_derived_blocks", stats.get("lib_blocks", 0))
    ctx.count("requests_whose_handler_raised", stats.get("handler_raised", 0))
    ctx.count("lazy_consumptions", stats.get("lazy_consumptions", 0))
    ctx.count("lazy_consumed_inside_block", stats.get("lazy_consumed_inside_block", 0))
    if not program["start_with_runtime"]:
        ctx.count("started_without_runtime")
    if result.get("hung"):
        ctx.inconclusive.append("a C14 program did not finish within 30 s" + (" and left the library's lock taken" if result.get("wedged") else ""))
        ctx.wedged = ctx.wedged if getattr(ctx, "wedged", False) else bool(result.get("wedged"))
        return
    if "mismatch" in result:
        msg, st = result["mismatch"]
        ctx.violation("stack-model", msg, {"program": program, "statement": st, "source": tag})
        return
    if stats["run_after_exit"] and (stats["exc_exits"] or stats["reentered"] or stats["late"] or not program["start_with_runtime"]):
        ctx.nontrivial(spec_hash(program))
        ctx.sample(program, limit=3)


def succession(ctx, r, case):
    """Several threads one AFTER the other (each joined before the next starts, so thread identifiers are recycled)
    over the SAME request types: a thread that neither enters nor inherits anything has no runtime yet and must be
    served by the defaults registered NOW (TypeError if none) - whatever earlier, finished threads entered, inherited
    or were served with; a thread that inherits sees its parent's current runtime; blocks inside a thread restore."""
    types = make_types()
    rt.handle_by_default(types["T0"], tagger("default0"))
    defaults = {"T0": {"default0"}}  # T -> tags registered so far (last = current)
    current = {"T0": "default0"}
    threads, script = [], []
    n_rereg = 0
    W = {"family": "succession", "case": case, "shard": ctx.shard, "shards": ctx.shards, "script": script}
    try:
        for step in range(r.choice([2, 3, 4, 5])):
            if r.random() < 0.45:
                n_rereg += 1
                T = r.choice(["T0", "T1"])
                tag = f"reg{n_rereg}"
                rt.handle_by_default(types[T], tagger(tag))
                defaults.setdefault(T, set()).add(tag)
                current[T] = tag
                script.append(["register-default", T, tag])
            mode = r.choice(["plain", "plain", "inherit-in-block", "inherit-outside", "plain-while-parent-in-block"])
            blk_T, blk_tag = r.choice(["T1", "T2"]), r.choice(TAGS)
            inner_T, inner_tag = r.choice(["T0", "T1", "T2"]), r.choice(TAGS)
            reinherit = r.random() < 0.3
            parent = threading.current_thread()
            got = {}

            def ask(T):
                try:
                    return types[T]().run()
                except TypeError:
                    return "TypeError"
                except KeyError:
                    return "kerr"
                except Exception as e:  # noqa: BLE001
                    return f"{type(e).__name__}: {e}"

            def child():
                if mode.startswith("inherit"):
                    rt.inherit(parent)
                got["first"] = {T: ask(T) for T in ("T0", "T1", "T2")}
                with rt.handle(types[inner_T], tagger(inner_tag)):
                    got["inside"] = {T: ask(T) for T in ("T0", "T1", "T2")}
                    if reinherit:
                        # inheriting from a thread that never had a runtime gives this thread a fresh one (the
                        # defaults), whatever it had before - also inside one of its own blocks
                        rt.inherit(threading.Thread(target=lambda: None, name="never-started"))
                        got["reinherited"] = {T: ask(T) for T in ("T0", "T1", "T2")}
                got["after"] = {T: ask(T) for T in ("T0", "T1", "T2")}

            t = threading.Thread(target=child, name=f"c14-succ-{step}", daemon=True)
            threads.append(t)
            if mode in ("inherit-in-block", "plain-while-parent-in-block"):
                with rt.handle(types[blk_T], tagger(blk_tag)):
                    t.start()
                    t.join(30)
            else:
                t.start()
                t.join(30)
            script.append(["thread", mode, [blk_T, blk_tag], [inner_T, inner_tag]])
            if t.is_alive():
                ctx.inconclusive.append("a C14 succession thread did not finish within 30 s")
                return
            ctx.count("succession_threads")
            ctx.evaluations += 9
            held = {blk_T: blk_tag} if mode == "inherit-in-block" else {}
            for phase in ("first", "inside", "after"):
                for T in ("T0", "T1", "T2"):
                    if phase == "inside" and T == inner_T:
                        exp = {inner_tag}
                    elif T in held:
                        exp = {held[T]}
                    elif mode.startswith("inherit"):
                        # the parent's base runtime may predate a re-registration (either default is acceptable then)
                        exp = set(defaults.get(T, ())) or {"TypeError"}
                        if T in current and len(defaults[T]) == 1:
                            exp = {current[T]}
                    else:
                        exp = {current.get(T, "TypeError")}
                    a = got.get(phase, {}).get(T)
                    if a not in exp:
                        ctx.violation("thread-succession", f"thread {step} ({mode}) asked {T} {phase} its own block: answered by {a!r}, expected {sorted(exp)}; "
                                      f"defaults now {current}", W)
                        return
            if reinherit:
                ctx.count("reinherit_from_runtimeless_thread")
                for T in ("T0", "T1", "T2"):
                    a = got.get("reinherited", {}).get(T)
                    if a != current.get(T, "TypeError"):
                        ctx.violation("thread-succession", f"thread {step} ({mode}) inherited from a thread that never had a runtime, inside its own block for {inner_T}: {T} answered by {a!r}, "
                                      f"expected the default {current.get(T, 'TypeError')!r}", W)
                        return
            if mode.startswith("plain"):
                ctx.count("succession_threads_without_runtime")
            if mode.startswith("plain") and n_rereg:
                ctx.nontrivial(spec_hash(["succession", script]))
    except Exception as e:  # noqa: BLE001  (the harness only derives / enters runtimes with valid handlers)
        ctx.violation("thread-succession", f"deriving or entering a runtime with a valid handler raised {type(e).__name__}: {e}", W)
    finally:
        alive = any(t.is_alive() for t in threads)
        if rt.lock.acquire(timeout=10 if alive else -1):
            try:
                for t in threads:
                    rt._RUNTIMES.pop(t, None)
                for T in types.values():
                    rt._DEFAULT_HANDLERS.pop(T, None)
            finally:
                rt.lock.release()
        else:
            ctx.wedged = True


def run(ctx):
    for i in range(ctx.n(1200, 12000)):
        succession(ctx, case_rng(ctx, ("succ", i)), i)
        if getattr(ctx, "wedged", False):
            ctx.inconclusive.append("a hung thread holds the library's lock: the rest of this shard's workload was not run")
            return
    if ctx.shard == 0:
        for p in DIRECTED:
            run_one(ctx, p, "directed")
    n = ctx.n(20000, 200000)
    for i in range(n):
        r = case_rng(ctx, i)
        run_one(ctx, gen_program(r, r.choice([4, 6, 8, 12] if ctx.quick else [4, 8, 12, 20, 30])), "random")
        if len(ctx.inconclusive) >= 3 or getattr(ctx, "wedged", False):
            ctx.inconclusive.append("programs did not finish (or a hung thread holds the library's lock): the rest of this shard's workload was not run")
            break


def replay(ctx, rep):
    w = rep["witness"]
    if w.get("family") == "succession":
        ctx.shard, ctx.shards = w.get("shard", 0), w.get("shards", 1)
        succession(ctx, case_rng(ctx, ("succ", w["case"])), w["case"])
        return
    run_one(ctx, rep["witness"]["program"], "replay")
