"""lvf — labrea verification framework (runtime monitoring)."""
