"""./check entry point: shard, run, merge, classify, report (DESIGN §2.7-2.9)."""
import argparse
import importlib
import json
import os
import subprocess
import sys
import tempfile
import time
import warnings

from . import boot
from .verdict import Ctx, classify, load_findings, merge, write_evidence, write_replay


def load(prop):
    return importlib.import_module(f"lvf.checks.{prop.lower()}")


def run_shard(mod, prop, tier, seed, shard, shards, replay=None, checkpoint=None):
    warnings.simplefilter("ignore")
    ctx = Ctx(prop, tier, seed, shard, shards, replay)
    ctx.checkpoint = checkpoint
    import faulthandler

    faulthandler.enable()
    from .build import BuildFailed

    try:
        if replay is not None:
            mod.replay(ctx, replay)
        else:
            mod.run(ctx)
    except BuildFailed as e:
        # every property quantifies over all legal expression graphs: one that cannot even be constructed (the
        # generators only produce graphs the library documents as legal) refutes it for that graph
        ctx.violation("graph-construction-raised", f"constructing a legal expression graph raised {e}", {"program": e.program, "construction_error": str(e)})
    return ctx.result()


def main(argv=None):
    ap = argparse.ArgumentParser()
    ap.add_argument("prop")
    ap.add_argument("--tier", default=os.environ.get("VERIF_TIER", "quick"), choices=["quick", "thorough"])
    ap.add_argument("--seed", type=int, default=int(os.environ.get("VERIF_SEED", "0")))
    ap.add_argument("--replay")
    ap.add_argument("--shard")
    ap.add_argument("--out")
    ap.add_argument("--shards", type=int)
    a = ap.parse_args(argv)
    prop = a.prop.upper()
    mod = load(prop)
    t0 = time.time()

    if a.shard:
        i, n = map(int, a.shard.split("/"))
        res = run_shard(mod, prop, a.tier, a.seed, i, n, checkpoint=a.out + ".partial")
        with open(a.out, "w") as f:
            json.dump(res, f, default=repr)
        return 0

    results = []
    inconclusive = []
    if a.replay:
        with open(a.replay) as f:
            rep = json.load(f)
        results.append(run_shard(mod, prop, a.tier, a.seed, 0, 1, replay=rep))
    else:
        shards = a.shards or (getattr(mod, "SHARDS_QUICK", 2) if a.tier == "quick" else getattr(mod, "SHARDS_THOROUGH", 16))
        timeout = getattr(mod, "TIMEOUT_QUICK", 900) if a.tier == "quick" else getattr(mod, "TIMEOUT_THOROUGH", 2700)
        tmp = tempfile.mkdtemp(prefix=f"lvf-{prop}-")
        procs = []
        try:
            for i in range(shards):
                out = os.path.join(tmp, f"shard{i}.json")
                cmd = [sys.executable, "-B", "-X", f"pycache_prefix={os.path.join(boot.VERIF, 'scratch', 'nopyc')}",
                       "-m", "lvf.main", prop, "--tier", a.tier, "--seed", str(a.seed),
                       "--shard", f"{i}/{shards}", "--out", out]
                log = open(os.path.join(tmp, f"shard{i}.log"), "w")
                procs.append((i, out, subprocess.Popen(cmd, cwd=boot.VERIF, stdout=log, stderr=subprocess.STDOUT), log))
            deadline = time.time() + timeout
            for i, out, p, log in procs:
                try:
                    p.wait(timeout=max(1, deadline - time.time()))
                except subprocess.TimeoutExpired:
                    p.kill()
                    p.wait()
                    inconclusive.append(f"shard {i} hit the {timeout}s watchdog")
                    if os.path.exists(out + ".partial"):
                        with open(out + ".partial") as f:
                            results.append(json.load(f))
                    continue
                finally:
                    log.close()
                if p.returncode != 0 or not os.path.exists(out):
                    tail = open(os.path.join(tmp, f"shard{i}.log")).read()[-3000:]
                    inconclusive.append(f"shard {i} crashed (rc={p.returncode}): {tail}")
                    if os.path.exists(out + ".partial"):
                        with open(out + ".partial") as f:
                            results.append(json.load(f))
                    continue
                with open(out) as f:
                    results.append(json.load(f))
        finally:
            import shutil

            shutil.rmtree(tmp, ignore_errors=True)

    merged = merge(results) if results else merge([])
    merged["inconclusive"].extend(inconclusive)
    floors_failed = []
    if not a.replay:
        for name, (q, t) in getattr(mod, "FLOORS", {}).items():
            need = q if a.tier == "quick" else t
            got = merged["counters"].get(name, 0)
            if got < need:
                floors_failed.append(f"floor {name}: observed {got} < {need}")
        for name, need in getattr(mod, "COVER", {}).items():
            got = set(merged["sets"].get(name, []))
            miss = sorted(set(need) - got)
            if miss:
                floors_failed.append(f"cover {name}: never observed {miss}")

    findings = load_findings()
    known, unknown = classify(prop, merged["violations"], findings)
    for fid, vs in sorted(known.items()):
        f = next(x for x in findings if x["id"] == fid and x.get("property") == prop and x.get("status") == "known")
        print(f"KNOWN-FINDING: property={prop} {f['what']} [{fid}; {len(vs)} witness(es) this run]")
    # one VIOLATION line per distinct monitor/mechanism, each with a replay file
    seen = set()
    for v in unknown:
        key = (v["monitor"], v["msg"][:80])
        if key in seen and len(seen) >= 5:
            continue
        seen.add(key)
        path = write_replay(prop, v)
        print(f"VIOLATION property={prop} replay={path}")
        print(f"  monitor={v['monitor']}: {v['msg'][:400]}")
        if len(seen) >= 8:
            break

    wall = time.time() - t0
    merged["counters"]["known_finding_witnesses"] = sum(len(v) for v in known.values())
    status = "violated" if unknown else ("inconclusive" if (merged["inconclusive"] or floors_failed) else "held")
    if a.replay:
        # a replay decides one recorded case; it never rewrites the evidence of the check
        print(f"{prop} replay: {'violated' if unknown else 'not reproduced / held'}; evaluations={merged['evaluations']}")
        return 1 if unknown else 0
    try:
        write_evidence(
            prop, mod.LEVEL, a.tier, a.seed, merged, mod.RULE, wall,
            getattr(mod, "ASSUMPTIONS", []), len(unknown), floors_failed,
            extra={"verdict": status, "known_findings_seen": sorted(known)},
        )
    except Exception as e:  # schema failure (e.g. nothing observed) is inconclusive, never held
        floors_failed.append(f"evidence not valid: {type(e).__name__}: {str(e)[:200]}")
        status = "violated" if unknown else "inconclusive"
    c = merged["counters"]
    print(f"{prop} {a.tier} seed={a.seed}: {status}; evaluations={merged['evaluations']} "
          f"distinct_nontrivial={len(merged['distinct'])} wall={wall:.1f}s")
    print("  counters: " + ", ".join(f"{k}={v}" for k, v in sorted(c.items())))
    if unknown:
        return 1
    if merged["inconclusive"] or floors_failed:
        for r in merged["inconclusive"] + floors_failed:
            print(f"INCONCLUSIVE property={prop} {r[:600]}")
        return 2
    return 0


if __name__ == "__main__":
    try:
        rc = main()
    except SystemExit:
        raise
    except BrokenPipeError:
        rc = 1
    except BaseException:  # a broken harness is never a verdict
        import traceback

        traceback.print_exc()
        print("INCONCLUSIVE harness error (see traceback)")
        rc = 3
    sys.exit(rc)
