"""Import-path bootstrap: make `import labrea` resolve to the tree under test.

LABREA_REPO (default /repo) is put first on sys.path, so a scratch copy or a
patched worktree can be checked without touching /repo.  icontract comes from
/verif/.deps (installed offline by setup.sh).
"""
import os
import sys

VERIF = os.path.dirname(os.path.dirname(os.path.abspath(__file__)))
REPO = os.environ.get("LABREA_REPO", "/repo")


def init():
    if REPO not in sys.path[:1]:
        sys.path.insert(0, REPO)
    deps = os.path.join(VERIF, ".deps")
    if deps not in sys.path:
        sys.path.append(deps)
    import labrea  # noqa: F401

    got = os.path.dirname(os.path.dirname(os.path.abspath(labrea.__file__)))
    if os.path.realpath(got) != os.path.realpath(REPO):
        raise RuntimeError(f"labrea imported from {got}, expected {REPO}")
    return labrea


def _line_coverage(path):
    """Optional diagnostic (LVF_COVERAGE=<dir>): which lines of the library the workload reached, recorded with
    sys.monitoring LINE events that disable themselves after the first hit (near-zero overhead).  Not used by any
    verdict; tools/covreport.py merges the per-process files."""
    import atexit
    import json

    mon = sys.monitoring
    tool = mon.COVERAGE_ID
    try:
        mon.use_tool_id(tool, "lvf-coverage")
    except ValueError:
        return
    prefix = os.path.realpath(os.path.join(REPO, "labrea")) + os.sep
    seen = set()

    def on_line(code, line):
        f = code.co_filename
        if f.startswith(prefix) or os.path.realpath(f).startswith(prefix):
            seen.add((os.path.basename(f), line))
        return mon.DISABLE

    mon.register_callback(tool, mon.events.LINE, on_line)
    mon.set_events(tool, mon.events.LINE)

    def dump():
        os.makedirs(path, exist_ok=True)
        with open(os.path.join(path, f"cov-{os.getpid()}.json"), "w") as fh:
            json.dump(sorted(seen), fh)

    atexit.register(dump)


if os.environ.get("LVF_COVERAGE") and hasattr(sys, "monitoring"):
    _line_coverage(os.environ["LVF_COVERAGE"])
init()
