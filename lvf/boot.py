"""Import-path bootstrap: make `import labrea` resolve to the tree under test.

LABREA_REPO (default /repo) is put first on sys.path, so a scratch copy or a
patched worktree can be checked without touching /repo.  icontract comes from
/verif/.deps (installed offline by setup.sh).
"""
import os
import sys

VERIF = os.path.dirname(os.path.dirname(os.path.abspath(__file__)))
REPO = os.environ.get("LABREA_REPO", "/repo")


def init():
    if REPO not in sys.path[:1]:
        sys.path.insert(0, REPO)
    deps = os.path.join(VERIF, ".deps")
    if deps not in sys.path:
        sys.path.append(deps)
    import labrea  # noqa: F401

    got = os.path.dirname(os.path.dirname(os.path.abspath(labrea.__file__)))
    if os.path.realpath(got) != os.path.realpath(REPO):
        raise RuntimeError(f"labrea imported from {got}, expected {REPO}")
    return labrea


init()
