"""Mechanism classifiers for recorded findings (DESIGN §2.8).

A violation is attributed to a recorded finding only when (a) a predicate over
what the monitors observed holds and (b) a neutralisation test passes: the same
case, re-executed with that one mechanism taken away, no longer violates.
"""
import contextlib

from . import boot  # noqa: F401

FALLBACK = "fallback-unexplainable-present-key"


@contextlib.contextmanager
def conservative_fallback_keys():
    """Neutralisation for FALLBACK: when the alternative skipped by a coalesce / switch default /
    overload default cannot be explain()ed, make the key set depend on every provided key."""
    from confectioner.templating import dotted_key_exists
    from labrea.coalesce import Coalesce
    from labrea.conditional import _FallbackFor
    from labrea.exceptions import EvaluationError

    def present(member, options):
        try:
            explained = member.explain(options)
        except Exception:  # noqa: BLE001
            return set(options.keys())
        return {k for k in explained if dotted_key_exists(k, options)}

    saved = (Coalesce.__dict__["_present"], _FallbackFor.__dict__["_present"])
    Coalesce._present = staticmethod(present)
    _FallbackFor._present = lambda self, options: present(self.depends, options)
    try:
        yield
    finally:
        Coalesce._present, _FallbackFor._present = saved


def explain_raised(tap_events):
    """Predicate for FALLBACK: an explain() issued while a key set was computed raised."""
    return any(kind == "explain" and status == "raise" for kind, _r, _d, status, _x in tap_events)


def classify_fallback(rerun):
    """rerun() -> number of violations of the same case under the neutralisation."""
    try:
        with conservative_fallback_keys():
            return FALLBACK if rerun() == 0 else None
    except Exception:  # noqa: BLE001  (e.g. the code under test no longer has these hooks)
        return None
