"""Hand-listed program shapes that encode the compositions named in the property texts.

Every check mixes these with seeded random programs, so its monitors see the
events they need on every seed (coverage floors, DESIGN §2.7).
"""
import copy

C = lambda v: {"k": "const", "v": v}  # noqa: E731
O = lambda key, **kw: {"k": "opt", "key": key, **kw}  # noqa: E731
DS = lambda i, **kw: {"k": "ds", "id": str(i), **kw}  # noqa: E731


def prog(root, **datasets):
    return {"datasets": {k.lstrip("d"): v for k, v in datasets.items()}, "root": root}


def programs():
    out = []
    K = lambda spec: {"k": "cached", "spec": spec}  # noqa: E731

    def add(name, p):
        p = copy.deepcopy(p)
        p["name"] = name
        out.append(p)

    # 1 option read directly / with defaults / prefix keys / list index
    add("opt-args", prog(DS(1), d1={"args": [["a", O("A")], ["b", O("S.X", dk="const", dv=7)], ["c", O("L.0", dk="const", dv=None)]]}))
    add("opt-prefix", prog(DS(1), d1={"args": [["a", O("S")], ["b", O("S.X", dk="const", dv=0)]]}))
    # 2 dispatch value
    add("dispatch-key", prog(DS(1), d1={"args": [["a", O("A", dk="const", dv=0)]], "dispatch": "D",
                                          "overloads": [["x", {"args": [["b", O("B", dk="const", dv=1)]]}], [["y", "z"], {"expr": O("C", dk="const", dv="c")}]]}))
    add("dispatch-default-opt", prog(DS(1), d1={"args": [], "dispatch": O("D", dk="const", dv="x"),
                                                  "overloads": [["x", {"args": [["b", O("B", dk="const", dv=1)]]}], ["y", {"args": []}]], "callback": "c1"}))
    add("dispatch-dataset", prog(DS(2), d1={"args": [["a", O("E", dk="const", dv="x")]]},
                                 d2={"args": [["a", O("A", dk="const", dv=0)]],
                                     "dispatch": {"k": "apply", "src": DS(1), "fn": "tostr", "n": 1},
                                     "overloads": [["str:('T', (('s', 'ds1'), ('s', 'default'), ('s', 'x')))", {"args": [], "tag": "ov:x"}],
                                                   ["str:('T', (('s', 'ds1'), ('s', 'default'), ('s', 'y')))", {"expr": O("B", dk="const", dv=2)}]]}))
    add("overload-bare-option", prog({"k": "tuple", "items": [DS(1), DS(2)]},
                                     d1={"args": [["a", O("A", dk="const", dv=0)]], "dispatch": "D", "cache": "nocache",
                                         "overloads": [["x", {"expr": O("B")}], ["y", {"expr": {"k": "tmpl", "text": "t{C}", "params": []}}]]},
                                     d2={"args": [["a", O("A", dk="const", dv=0)]], "dispatch": O("D", dk="const", dv="x"),
                                         "overloads": [["x", {"expr": O("S.X", dk="const", dv="sx")}], ["y", {"expr": O("E", dk="const", dv=1)}]]}))
    # case conditions that are expressions over the options: what they read is part of what the case reads
    add("case-option-conditions", prog({"k": "tuple", "items": [DS(1), K({"k": "case", "disp": O("A", dk="const", dv=0), "n": 31,
                                                                         "cases": [["eqopt:B", C("a-equals-b")], ["eqopt!:C", O("S.X", dk="const", dv="sx")]], "default": C("neither")})]},
                                       d1={"args": [["x", {"k": "case", "disp": O("A", dk="const", dv=0), "n": 32, "cases": [["eqopt:B", C("eq-b")], ["eqopt:S.Y", C("eq-sy")]], "default": O("C", dk="const", dv="dflt")}]]}))
    # one dataset object bound to several parameters of one consumer (and used twice inside one collection)
    add("same-dataset-several-parameters", prog(DS(2), d1={"args": [["a", O("A", dk="const", dv=0)]], "effects": ["e"]},
                                                d2={"args": [["x", DS(1)], ["y", DS(1)], ["z", {"k": "tuple", "items": [DS(1), DS(1)]}]], "cache": "nocache"}))
    # a coalesce member that is REJECTED although every key it reads is present (value outside its domain): keys() and
    # evaluate() must agree on the member that is used
    add("coalesce-domain-rejected-member", prog({"k": "tuple", "items": [
        {"k": "cached", "spec": {"k": "coalesce", "members": [O("D", dom=["container", ["x", "y"]]), O("B", dk="const", dv="fb")]}}, DS(1)]},
        d1={"args": [["v", {"k": "coalesce", "members": [O("E", dom=["container", ["x"]]), O("C", dk="const", dv="fc")]}]]}))
    # a skipped coalesce member that is a Map whose iterables cannot be evaluated: what the caller holds under a MAPPED
    # key (and what that refers to) is no dependency - keys() must be stable under restriction to keys()
    add("map-static-explain-outer-values", prog({"k": "cached", "spec": {"k": "coalesce", "members": [
        {"k": "apply", "n": 8, "fn": "f1", "src": {"k": "map", "body": O("A", dk="const", dv=0),
                                                   "iters": [["S.Y", C(["b", "b"])], ["A", C([])], ["T.X", O("L")]]}},
        {"k": "apply", "n": 9, "fn": "truthy", "src": C(0)}]}}))
    # a Map over several dotted keys of one section: every assignment overrides all of them (siblings are merged, not replaced)
    add("map-sibling-section-keys", prog({"k": "apply", "n": 9, "fn": "f1", "src": {"k": "map", "body": {"k": "tuple", "items": [O("S.X", dk="const", dv="dx"), O("S.Y", dk="const", dv="dy"), O("S")]},
                                          "iters": [["S.X", {"k": "list", "items": [C(1), C(2)]}], ["A", {"k": "list", "items": [C("a")]}], ["S.Y", {"k": "list", "items": [C(10), C(20), C(30)]}]]}}))
    # a Map that pre-sets only PART of a section while its body reads the whole section, under a memoising dataset:
    # the members the caller alone provides (S.Y) are part of every element's value
    add("map-presets-part-of-a-section", prog({"k": "tuple", "items": [DS(1), DS(2)]},
                                              d1={"args": [["m", {"k": "apply", "n": 41, "fn": "f1", "src": {"k": "map", "body": O("S"), "iters": [["S.X", {"k": "list", "items": [C(1), C(2)]}]]}}]]},
                                              d2={"args": [["m", {"k": "apply", "n": 42, "fn": "f1", "src": {"k": "map", "body": {"k": "tuple", "items": [O("S"), O("A", dk="const", dv=0)]},
                                                                                                          "iters": [["S.X.Q", O("L", dk="const", dv=[9])]]}}]], "form": "explicit"}))
    # option names that are string prefixes of one another without being section and member (A / AB, S.X / S.XL):
    # each is its own key - in lookups, in keys() and in the cache key
    add("prefix-named-keys", prog({"k": "tuple", "items": [DS(1), {"k": "cached", "spec": {"k": "tuple", "items": [O("A", dk="const", dv=0), O("AB", dk="const", dv=0)]}}]},
                                  d1={"args": [["a", O("A", dk="const", dv=0)], ["ab", O("AB", dk="const", dv=0)], ["x", O("S.X", dk="const", dv=0)], ["xl", O("S.XL", dk="const", dv="m")]]}))
    # a template built with a parameter its text never mentions (the constructor only warns): the parameter is still
    # evaluated, validated and keyed - so what it needs is part of what the template needs
    add("template-unreferenced-parameter", prog({"k": "tuple", "items": [{"k": "tmpl", "text": "t{C}", "params": [["r", O("B")]]}, DS(1)]},
                                                d1={"args": [["banner", O("E", dk="spec", dv={"k": "tmpl", "text": "{:p:}", "params": [["p", O("A", dk="const", dv="a")], ["q", O("S.Y")]]})]]}))
    # ONE evaluatable reached many times within a single keys() / fingerprint() call, each time under another derived
    # dictionary (Map elements, sibling derivatives): what it reads under the LAST of them counts as much as under the first
    add("map-many-elements-key-sets-differ", prog({"k": "tuple", "items": [
        {"k": "apply", "n": 51, "fn": "f1", "src": {"k": "map", "body": {"k": "switch", "disp": "D", "table": [["x", O("A", dk="const", dv="a-dflt")], ["y", O("B")]], "default": O("C", dk="const", dv="c-dflt")},
                                                   "iters": [["D", O("L", dk="const", dv=["x", "x", "x", "x", "y"])]]}},
        {"k": "tuple", "items": [DS(1, P={"D": "x"}), DS(1, P={"D": "x"}), DS(1, P={"D": "x"}), DS(1, P={"D": "x"}), DS(1, P={"D": "y"}), DS(1, P={"D": "x"}), DS(1, P={"D": "y"})]}]},
        d1={"args": [["a", O("A", dk="const", dv=0)]], "dispatch": "D", "overloads": [["y", {"args": [["b", O("B")]]}]], "cache": "nocache"}))
    # a dispatch whose VALUE is a tuple: a tuple alias is ONE alias (a list spells several), whichever way it is registered
    add("tuple-valued-dispatch", prog({"k": "tuple", "items": [DS(1), DS(2)]},
                                      d1={"args": [["a", O("A", dk="const", dv=0)]], "dispatch": {"k": "tuple", "items": [O("D", dk="const", dv="x"), O("E", dk="const", dv=1)]},
                                          "overloads": [[{"tuple": ["x", 1]}, {"args": [["b", O("B", dk="const", dv="b")]]}], [{"tuple": ["y", 0]}, {"expr": O("C", dk="const", dv="c")}],
                                                        [[{"tuple": ["z", 1]}, {"tuple": ["z", 0]}], {"args": []}]]},
                                      d2={"args": [], "abstract": True, "dispatch": "D", "overloads": [[{"tuple": ["x", "y"]}, {"args": [["b", O("B", dk="const", dv="pair")]]}]]}))
    # a dataset class whose members report a list AND an index into it / a section AND a member of it (privately named
    # member, inherited member): instantiation succeeds wherever validate() and keys() do
    add("dataset-class-nested-reported-keys", prog({"k": "tuple", "items": [
        {"k": "dc", "n": 61, "members": [["m0", {"k": "tmpl", "text": "{L.0}", "params": []}], ["m1", O("L", dk="const", dv=["dflt"])], ["_m2", O("S", dk="const", dv={})], ["m3", O("S.X", dk="const", dv=0)]], "base": 2, "base_decorated": True},
        DS(1)]}, d1={"args": [["c", {"k": "dc", "n": 62, "members": [["m0", O("L.1", dk="const", dv=None)], ["_m1", O("L", dk="const", dv=[])]]}]]}))
    # a Map over several keys where a LATER key's iterable can be walked only once (an Iter, another Map's values): the
    # product still has every combination
    add("map-one-shot-iterables", prog({"k": "apply", "n": 71, "fn": "f1", "src": {"k": "map", "body": {"k": "tuple", "items": [O("A", dk="const", dv=0), O("B", dk="const", dv=0), O("C", dk="const", dv=0)]},
                                        "iters": [["A", C([1, 2])], ["B", {"k": "iter", "items": [C("x"), O("E", dk="const", dv="y")]}],
                                                  ["C", {"k": "map", "body": O("T.X", dk="const", dv="t"), "iters": [["T.X", C([7, 8])]], "values": True}]]}}))
    # a Map whose elements choose different branches: one element's branch cannot be chosen (its selector needs an absent
    # option) while the body explained on its own - with the caller's value / the default of the mapped key - is decidable
    add("map-element-branch-cannot-be-chosen", prog({"k": "apply", "n": 91, "fn": "f1", "src": {"k": "map", "iters": [["B", C(["s", 1])]], "body": {
        "k": "case", "n": 92, "disp": O("B", dk="const", dv=-1), "cases": [["is_int", O("A", dk="const", dv=0)]],
        "default": {"k": "bind", "n": 93, "src": O("D"), "table": [["b", O("C", dk="const", dv="c")]], "else": O("A", dk="const", dv=1)}}}}))
    # a dotted dispatch key that is absent while its section is present: the other members of that section are nobody's business
    add("dotted-dispatch-absent-section-present", prog({"k": "tuple", "items": [DS(1), DS(2)]},
                                                       d1={"args": [["a", O("A", dk="const", dv=0)]], "dispatch": "S.X", "overloads": [["x", {"args": [["b", O("B", dk="const", dv=1)]]}]]},
                                                       d2={"args": [["inner", DS(1)], ["c", O("C", dk="const", dv=0)]], "dispatch": O("T.X", dk="const", dv="none"), "overloads": [["y", {"expr": O("A", dk="const", dv="ya")}]]}))
    # a NESTED coalesce whose members are all rejected although their keys are present (values outside their domains,
    # each option with a default inside its domain): every one of those keys decides that the outer fall-back is taken
    add("nested-coalesce-all-members-rejected", prog(
        {"k": "cached", "spec": {"k": "coalesce", "members": [{"k": "coalesce", "members": [O("D", dk="const", dv="x", dom=["container", ["x", "y"]]), O("E", dk="const", dv="x", dom=["container", ["x"]])]},
                                                              O("B", dk="const", dv="fb")]}}))
    # a key that is present with a null value is PRESENT: the default (and what the default reads) plays no part
    add("null-valued-option", prog({"k": "tuple", "items": [DS(1), {"k": "cached", "spec": O("C", dk="tmpl", dv="{S.X} t")}]},
                                   d1={"args": [["a", O("A", dk="spec", dv=O("B"))], ["c", O("E", dk="spec", dv=DS(2))]]},
                                   d2={"args": [["x", O("S.Y", dk="const", dv="sy")]], "cache": "nocache"}))
    # an unhashable dispatch value (a list / section under the dispatch key) matches no branch: default or SwitchError
    add("unhashable-dispatch", prog({"k": "tuple", "items": [
        {"k": "coalesce", "members": [{"k": "switch", "disp": "D", "table": [["x", O("A")], ["y", O("B")]]}, C("no-branch")]},
        {"k": "switch", "disp": "E", "table": [["x", O("A")]], "default": O("C", dk="const", dv="dflt")}, DS(1)]},
        d1={"args": [["a", O("A", dk="const", dv=0)]], "dispatch": "D", "overloads": [["x", {"expr": O("B")}]]}))
    add("abstract", prog({"k": "coalesce", "members": [DS(1), C("fallback")]},
                         d1={"args": [], "abstract": True, "dispatch": "D", "overloads": [["x", {"args": [["b", O("B")]]}], ["y", {"args": []}]]}))
    # 3 templated references
    add("tmpl-chain", prog(DS(1), d1={"args": [["a", O("A")], ["t", {"k": "tmpl", "text": "{S.X}-{B}", "params": []}]]}))
    add("tmpl-param", prog(DS(1), d1={"args": [["t", {"k": "tmpl", "text": "{:p:}/{A}", "params": [["p", DS(2)]]}]]},
                           d2={"args": [["b", O("B", dk="const", dv="b")]]}))
    add("tmpl-default", prog(DS(1), d1={"args": [["a", O("A", dk="tmpl", dv="{S.X}-{B}")], ["c", O("C", dk="const", dv="x{A}y")]]}))
    add("tmpl-container", prog({"k": "cached", "spec": O("A")}))
    add("tmpl-container-ds", prog(DS(1), d1={"args": [["a", O("A")], ["s", O("S")]]}))
    # 4 pre-set / default options
    add("preset-ds", prog(DS(1), d1={"args": [["a", O("A")], ["x", O("S.X", dk="const", dv=0)], ["y", O("S.Y", dk="const", dv=0)]],
                                     "options": {"S": {"X": 1}}, "default_options": {"A": "dflt", "S": {"Y": 5}}}))
    add("derive-with", prog({"k": "tuple", "items": [DS(1), DS(1, P={"A": 1}), DS(1, P={"A": 2}), DS(1, D={"A": 3})]},
                            d1={"args": [["a", O("A", dk="const", dv="none")], ["b", O("B", dk="const", dv=0)]], "callback": "c1", "effects": ["e"]}))
    add("derive-section-order", prog({"k": "tuple", "items": [DS(1, P={"S": {"Y": 3}}), DS(1, D={"S": {"Y": 3}}), DS(1, P={"S": {"Y": 3}}, D={"A": 1})]},
                                     d1={"args": [["s", O("S", dk="const", dv=None)], ["a", O("A", dk="const", dv=0)]], "effects": ["e"]}))
    add("with-section", prog({"k": "cached", "spec": {"k": "with", "spec": O("S"), "P": {"S": {"X": 1}}, "force": True}}))
    add("with-section-ds", prog(DS(1), d1={"args": [["s", {"k": "with", "spec": O("S"), "P": {"S": {"X": 1}}, "force": True}]]}))
    add("with-default-section", prog({"k": "cached", "spec": {"k": "with", "spec": {"k": "tuple", "items": [O("S"), O("A", dk="const", dv=0)]}, "P": {"S": {"X": 1}, "A": 5}, "force": False}}))
    # 5 the composition named in C01: dispatch value inside a default of an option read through pre-set options
    add("dispatch-in-default-through-preset",
        prog(DS(2), d1={"args": [["b", O("B", dk="const", dv=0)]], "dispatch": "D", "overloads": [["x", {"args": [["c", O("C", dk="const", dv=1)]]}], ["y", {"args": []}]]},
             d2={"args": [["a", O("A", dk="spec", dv=DS(1))]], "options": {"T": {"X": 1}}}))
    # 6 combinators (C05 text)
    sw_nodef = lambda disp, a, b: {"k": "switch", "disp": disp, "table": [["x", a], ["y", b]]}  # noqa: E731
    add("coalesce-switches-nodefault", prog({"k": "coalesce", "members": [sw_nodef("D", O("A"), O("B")), sw_nodef("E", O("B"), C("e-y")), O("C")]}))
    add("case-on-coalesce", prog({"k": "case", "disp": {"k": "coalesce", "members": [O("A"), O("B"), C(None)]},
                                  "cases": [["isnone", C("none")], ["is_str", O("S.X", dk="const", dv="sx")], ["truthy", DS(1)]],
                                  "default": C("other"), "n": 1},
                                 d1={"args": [["c", O("C", dk="const", dv=0)]]}))
    add("switch-in-map-in-default",
        prog(DS(1), d1={"args": [["a", O("A", dk="spec", dv={"k": "apply", "src": {"k": "map", "body": {"k": "switch", "disp": "D", "table": [["x", O("B", dk="const", dv="bx")], ["y", O("C", dk="const", dv="cy")]], "default": C("dflt")},
                                                                             "iters": [["D", O("L", dk="const", dv=["x", "y", "q"])]]}, "fn": "f1", "n": 1})]]}))
    add("map-product", prog({"k": "apply", "src": {"k": "map", "body": {"k": "tuple", "items": [O("A"), O("S.X"), O("B", dk="const", dv="b")]},
                                                   "iters": [["A", C([1, 2, 3])], ["S.X", O("L", dk="const", dv=["p", "q"])]]}, "fn": "f1", "n": 1}))
    add("map-dataset", prog({"k": "apply", "src": {"k": "map", "body": DS(1), "iters": [["A", O("L", dk="const", dv=[1, 2, 1])]], "values": True}, "fn": "f1", "n": 1},
                            d1={"args": [["a", O("A")], ["b", O("B", dk="const", dv=0)]]}))
    add("bind", prog({"k": "bind", "src": O("A", dk="const", dv=0), "table": [[0, O("B", dk="const", dv="b0")], [1, DS(1)]], "else": O("C"), "n": 1},
                     d1={"args": [["x", O("S.X", dk="const", dv=1)]]}))
    add("collections", prog({"k": "dict", "items": [["l", {"k": "list", "items": [O("A", dk="const", dv=1), C(2), O("B", dk="const", dv=3)]}],
                                                     ["t", {"k": "tuple", "items": [O("C", dk="const", dv="c"), DS(1)]}],
                                                     ["s", {"k": "set", "items": [O("D", dk="const", dv="x"), O("E", dk="const", dv="y"), C("x")]}]]},
                            d1={"args": []}))
    # Map whose body's requirements depend on the mapped option (a later element needs another option)
    add("map-switch-on-mapped-key", prog({"k": "apply", "src": {"k": "map", "body": {"k": "switch", "disp": "D", "table": [["x", O("A")], ["y", O("B")], ["z", O("S.X", dk="const", dv="sx")]]},
                                                                 "iters": [["D", O("L", dk="const", dv=["x", "y"])]], "values": True}, "fn": "f1", "n": 1}))
    add("map-switch-on-mapped-key-ds", prog(DS(1), d1={"args": [["m", {"k": "apply", "src": {"k": "map", "body": {"k": "switch", "disp": "D", "table": [["x", O("A")], ["y", O("B")]]},
                                                                                            "iters": [["D", C(["x", "y"])]]}, "fn": "f1", "n": 1}]], "cache": "nocache"}))
    # pre-set section and caller section overlapping two levels deep (whole-section read)
    add("with-deep-section", prog(K({"k": "with", "spec": O("S"), "P": {"S": {"X": {"P": 1}}}, "force": True})))
    add("with-deep-section-ds", prog(DS(1), d1={"args": [["s", O("S", dk="const", dv=None)]], "options": {"S": {"X": {"P": 1}, "Y": 0}}}))
    add("derive-deep-section", prog({"k": "tuple", "items": [DS(1, P={"S": {"X": {"P": 1}}}), DS(1)]}, d1={"args": [["s", O("S", dk="const", dv=None)]]}))
    # datasets created through one reused configured decorator, reading the same options
    add("shared-factory", prog({"k": "tuple", "items": [DS(1), DS(2), DS(3)]},
                               d1={"args": [["a", O("A", dk="const", dv=0)]], "cache": "factory"},
                               d2={"args": [["a", O("A", dk="const", dv=0)]], "cache": "factory", "callback": "c1"},
                               d3={"args": [["a", O("A", dk="const", dv=0)]], "cache": "factory", "dispatch": "D", "overloads": [["x", {"args": []}]]}))
    # a coalesce argument of a memoised dataset whose LATER members need a dataset to choose a branch
    add("coalesce-later-member-selector",
        prog(DS(2), d1={"args": [["e", O("E", dk="const", dv="x")]]},
             d2={"args": [["c", {"k": "coalesce", "members": [O("A"),
                                                               {"k": "switch", "disp": {"k": "apply", "src": DS(1), "fn": "tostr", "n": 1}, "table": [["k", C("sw")]], "default": C("sw-default")},
                                                               {"k": "case", "disp": DS(1), "cases": [["always", C("case")]], "n": 2},
                                                               {"k": "bind", "src": DS(1), "table": [], "else": C("bind"), "n": 3}]}]]}))
    # a cached node whose value is None (falsy values must be stored and served like any other)
    add("none-valued", prog({"k": "tuple", "items": [DS(2), DS(1), DS(3)]},
                            d1={"expr": C(None), "form": "explicit", "effects": ["e"]},
                            d2={"args": [["x", DS(1)], ["y", DS(1)], ["a", O("A", dk="const", dv=0)]]},
                            d3={"expr": O("B", dk="const", dv=None), "form": "explicit", "effects": ["e", "e"], "callback": None}))
    # 7 sharing / diamonds / nocache
    add("diamond", prog(DS(4), d1={"args": [["a", O("A", dk="const", dv=0)]], "effects": ["e"]},
                        d2={"args": [["x", DS(1)], ["b", O("B", dk="const", dv=0)]]},
                        d3={"args": [["x", DS(1)], ["c", O("C", dk="const", dv=0)]], "cache": "nocache"},
                        d4={"args": [["l", DS(2)], ["r", DS(3)], ["again", DS(1)]], "callback": "c2", "effects": ["e", "e"]}))
    add("chain-nocache", prog(DS(3), d1={"args": [["a", O("A", dk="const", dv=0)]]},
                              d2={"args": [["x", DS(1)]], "cache": "nocache", "effects": ["e"]},
                              d3={"args": [["x", DS(2)], ["y", DS(1)]]}))
    # 8 pipelines / steps with option-valued parameters
    add("step-params", prog(DS(1), d1={"args": [["v", {"k": "apply", "src": O("A", dk="const", dv=1),
                                                        "fn": {"name": "s1", "params": [["p0", O("B", dk="const", dv=2)], ["p1", O("S.Y", dk="const", dv=3)]], "n": 1}}]]}))
    # 9 AllOptions
    add("allopts", prog({"k": "cached", "spec": {"k": "tuple", "items": [{"k": "allopts"}, O("A", dk="const", dv=0)]}}))
    # 10 coalesce with datasets
    add("coalesce-ds", prog({"k": "coalesce", "members": [DS(1), DS(2), C("none")]},
                            d1={"args": [["a", O("A")]]}, d2={"args": [["b", O("B")]]}))
    # 11 wraps-evaluatable form and factory/domain defaults
    add("wraps", prog(DS(1), d1={"expr": O("A", dk="factory", dv=[1], n=1), "form": "explicit", "callback": "c1"}))
    add("domain", prog({"k": "coalesce", "members": [O("A", dom=["container", [0, 1, 2]]), O("B", dk="const", dv=1, dom=["pred", "is_int"], n=2), C("out")]}))
    # 12 every combinator directly under a cache, branches with identical key sets, so that a
    #    key set that omits the selecting child conflates two dictionaries
    add("uc-bind", prog(K({"k": "bind", "src": O("A", dk="const", dv=0), "table": [[0, C("zero")], [1, C("one")]], "else": C("other"), "n": 1})))
    add("uc-case", prog(K({"k": "case", "disp": O("A", dk="const", dv=None), "cases": [["isnone", C("n")], ["truthy", C("t")]], "default": C("f"), "n": 1})))
    add("uc-switch", prog(K({"k": "switch", "disp": "D", "table": [["x", C(1)], ["y", C(2)]], "default": C(3)})))
    add("uc-switch-opt", prog(K({"k": "switch", "disp": O("D", dk="const", dv="x"), "table": [["x", O("A", dk="const", dv="ax")], ["y", O("A", dk="const", dv="ay")]]})))
    add("uc-coalesce", prog(K({"k": "coalesce", "members": [O("A"), O("B"), C("none")]})))
    add("uc-map", prog(K({"k": "apply", "src": {"k": "map", "body": O("A"), "iters": [["A", O("L", dk="const", dv=[1])]]}, "fn": "f1", "n": 1})))
    add("uc-tmpl", prog(K({"k": "tmpl", "text": "{:p:}/{A}", "params": [["p", O("B", dk="const", dv="b")]]})))
    add("uc-step", prog(K({"k": "apply", "src": O("A", dk="const", dv=1), "fn": {"name": "s1", "params": [["p0", O("B", dk="const", dv=2)]], "n": 1}})))
    add("uc-collections", prog(K({"k": "dict", "items": [["l", {"k": "list", "items": [O("A", dk="const", dv=1)]}], ["t", {"k": "tuple", "items": [O("B", dk="const", dv=2)]}], ["s", {"k": "set", "items": [O("D", dk="const", dv="x")]}]]})))
    add("uc-with", prog(K({"k": "with", "spec": {"k": "tuple", "items": [O("A", dk="const", dv=0), O("S.X", dk="const", dv=0), O("S.Y", dk="const", dv=0)]}, "P": {"S": {"X": 9}}, "force": True})))
    add("uc-withdefault", prog(K({"k": "with", "spec": {"k": "tuple", "items": [O("A", dk="const", dv=0), O("S.X", dk="const", dv=0), O("S.Y", dk="const", dv=0)]}, "P": {"S": {"X": 9}, "A": 8}, "force": False})))
    add("uc-optdefault-chain", prog(K(O("A", dk="spec", dv=O("B", dk="spec", dv=O("C", dk="const", dv="end"))))))
    add("uc-domain-spec", prog(K({"k": "coalesce", "members": [O("A", dk="const", dv=1, dom=["spec", O("C", dk="const", dv=[0, 1, "a"])]), C("rejected")]})))
    add("uc-ds-dispatch-default", prog(K(DS(1)), d1={"args": [], "cache": "nocache", "dispatch": O("D", dk="const", dv="x", dom=["container", ["x", "y"]]),
                                                    "overloads": [["x", {"expr": C("impl-x")}], ["y", {"expr": C("impl-y")}]]}))
    # 13 reproducer of the recorded finding 'fallback-unexplainable-present-key' (known_findings.json):
    #    the overload selected by D='x' fails on the present-but-unregistered E, cannot be explain()ed, and the
    #    coalesce falls back to a constant whose key set mentions neither D nor E
    add("kf-fallback-unexplainable",
        prog(K({"k": "coalesce", "members": [DS(1), C("fell-back")]}),
             d1={"args": [["a", O("A", dk="const", dv=0)]], "cache": "nocache", "dispatch": "D",
                 "overloads": [["x", {"expr": {"k": "switch", "disp": O("E"), "table": [["y", C("e-y")], ["z", C("e-z")]]}}]]}))
    return out


def dictionaries():
    """Directed dictionaries (collide on purpose with the programs above)."""
    base = [
        {},
        {"A": 1},
        {"A": 2},
        {"A": 1, "B": "b"},
        {"A": 0, "B": None, "C": False},
        {"A": "", "S": {"X": 0, "Y": ""}},
        {"S": {"X": 1}},
        {"S": {"X": 1, "Y": 2}},
        {"S": {"X": 1, "Y": 3}},
        {"S": {"Y": 2}},
        {"S": {}},
        {"S": {"X": {"Q": 2}, "Y": 5}},
        {"S": {"X": {"Q": 3}, "Y": 5}},
        {"S": {"X": {"Q": 2, "P": 7}, "Y": 5}},
        {"S": {"X": {}, "Y": 5}},
        {"L": ["y", "x"], "A": 1},
        {"L": ["x", "y"], "A": 1},
        {"L": ["x", "y"], "A": 1, "B": 2},
        {"L": ["x"], "A": 1},
        {"A": None, "B": 1, "E": None, "C": None, "S": {"X": 1, "Y": 1}},
        {"A": None, "B": 2, "E": None, "C": None, "S": {"X": 2, "Y": 2}},
        {"A": None, "E": None, "C": None},
        {"A": ["p{T.X}q"], "B": ["{A}", "a"], "C": False, "T": {"X": ["{C}", 2]}},
        {"A": 1, "B": 1, "C": 3},
        {"A": 1, "B": 2, "C": 3},
        {"A": 1, "B": 2, "C": 1, "S": {"Y": 1}},
        {"A": 1, "B": 2, "C": 1, "S": {"Y": 2}},
        {"D": "z", "B": 1, "E": "q", "C": 1},
        {"D": "z", "B": 2, "E": "q", "C": 2},
        {"D": "z", "E": "q"},
        {"D": "x"},
        {"D": ["x"], "E": {"K": "x"}},
        {"D": ["x"], "E": ["x"], "A": 1, "B": 2},
        {"D": "y"},
        {"D": "z"},
        {"D": "x", "B": 5},
        {"D": "x", "C": 6},
        {"D": "y", "C": 6},
        {"E": "x"},
        {"D": "x", "E": None},
        {"E": "y"},
        {"E": "y", "D": "q", "A": "a"},
        {"A": "{B}", "B": 1},
        {"A": "{B}", "B": 2},
        {"A": "{B}"},
        {"A": ["{B}"], "B": 1},
        {"A": ["{B}"], "B": 2},
        {"A": {"K": "{B}"}, "B": 1},
        {"A": {"K": "{B}"}, "B": 2},
        {"S": {"X": "{B}", "Y": 1}, "B": 1},
        {"S": {"X": "{B}", "Y": 1}, "B": 2},
        {"S": {"X": "{T.X}"}, "T": {"X": "{A}"}, "A": "deep", "B": "b"},
        {"S": {"X": "{T.X}"}, "T": {"X": "{A}"}, "A": "deeper", "B": "b"},
        {"A": 1, "AB": 1, "S": {"X": 2, "XL": "km"}},
        {"A": 1, "AB": 2, "S": {"X": 2, "XL": "km"}},
        {"A": 1, "AB": 2, "S": {"X": 2, "XL": "mi"}},
        {"A": 1, "S": {"X": 2}},
        {"L": ["x", "x", "x", "y"], "A": 1, "B": 2},
        {"L": ["x", "x", "x", "y"], "A": 1, "B": 3},
        {"L": ["x", "y", "x", "x", "x", "y", "x"], "A": 1, "B": 3},
        {"D": "y", "E": 0, "C": 2},
        {"D": "z", "E": 0},
        {"D": "x", "E": 0},
        {"D": "{A}", "A": "x"},
        {"D": "{A}", "A": "y", "B": 5, "C": 6},
        {"D": "{S.X}", "E": "{A}", "A": "x", "S": {"X": "y"}},
        {"C": [0]},
        {"C": [1, 2], "B": 1},
        {"C": [0], "B": 1},
        # escaped braces are text: nothing is referred to (E is never pulled into another string by the programs)
        {"E": "\\{N1}", "N1": 1, "A": 1},
        {"E": "\\{N1}", "N1": 2, "A": 1},
        {"E": "\\{x\\}", "A": 1, "D": "\\{x\\}"},
        {"E": "a\\{b\\}c", "A": 2},
        {"L": [1, 2]},
        {"L": ["x", "y"]},
        {"L": []},
        {"L": ["{A}"], "A": 1},
        {"L": ["{A}"], "A": 2},
        {"A": 1, "N1": 5},
        {"N1": 5, "A": 1},
        {"A": None},
        {"A": False, "B": 0, "C": ""},
        {"A": [], "B": {}, "C": [0]},
        {"A": 1, "B": 1, "C": 1, "D": 1, "E": 1},
    ]
    return copy.deepcopy(base)
