"""Importable, module-level parts for the pickle round-trip check (C20)."""
from labrea import Option, Template, coalesce, dataset, switch
from labrea.types import Value

EFFECT_LOG = []


def body_a(a=Option("A", 0), b=Option("S.X", "sx")):
    return ("a", a, b)


def body_b(x=None, c=Option("C")):
    return ("b", x, c)


def body_c(t=Template("{A}-{:p:}", p=Option("B", "pb"))):
    return ("c", t)


def ov_x(c=Option("C", 1)):
    return ("ov_x", c)


def ov_y():
    return ("ov_y",)


def late_overload(e=Option("E", "e")):
    return ("late", e)


def cb(v):
    return ("cb", v)


def eff(v):
    EFFECT_LOG.append(v)


def upper(v):
    return ("up", v)


# explicit form: the function keeps its own module-level name
ds_a = dataset(body_a)
ds_c = dataset(body_c, effects=[eff])
ds_main = dataset(body_b, dispatch="D", callback=cb, effects=[eff], options={"S": {"X": "forced"}}, default_options={"C": "dc"}, defaults={"x": ds_a})
ds_main.overload("x")(ov_x)
ds_main.overload(["y", "z"])(ov_y)
ds_main.register("opt", Option("A", "registered-option"))
ds_abstract = dataset(body_a, abstract=True, dispatch=Option("D", "x"))
ds_abstract.register("x", ds_a)
ds_derived = ds_main.with_options({"A": "wa"}).with_default_options({"D": "x"})
expr_root = coalesce(switch("E", {"m": ds_main, "c": ds_c}), ds_derived >> upper, Value("nothing"))



# options grouped in a namespace: single members, an auto member of a nested namespace, and the namespace as a whole
@Option.namespace("NS")
class NS:
    P: int = 3
    Q = Option("A", "q-default")

    class SUB:
        R = Option.auto(default="r-default", doc="auto member")


def body_ns(p=NS.P, r=NS.SUB.R, whole=NS, c=Option("C", 0)):
    return ("ns", p, r, sorted(whole.items(), key=str), c)


ds_ns = dataset(body_ns, dispatch=NS.Q)
ds_ns.overload("x")(ov_x)
typed = dataset(body_a, defaults={"a": Option[int]("A", 0)})



def eff_raises(v):
    raise ValueError("this effect is switched off and must stay off")


def body_q(a=Option("A", 0)):
    return ("q", a)


# state set by method calls BEFORE pickling: per-dataset effects toggle, late effects, late cache, late dispatch
ds_quiet = dataset(body_q, effects=[eff_raises])
ds_quiet.disable_effects()
ds_late = dataset(body_q)
ds_late.add_effects(eff)
ds_late.set_dispatch("D")
ds_late.overload("x")(ov_x)
ds_late.set_cache(__import__("labrea").cache.NoCache())
ds_late.disable_effects()
ds_late.enable_effects()



def body_dep(a=Option("A", 0)):
    return ("dep", a)


def body_total(x=None, c=Option("C", 0)):
    return ("total", x, c)


# a dependency named as a parameter default of another dataset; the C20 check registers an overload on it at RUN time
# (not at import), so that state exists only in the pickled object, never in a freshly imported module
ds_dep = dataset(body_dep, dispatch="D")
ds_total = dataset(body_total, defaults={"x": ds_dep})


def total_sig(x=ds_dep, c=Option("C", 0)):
    return ("total_sig", x, c)


ds_total_sig = dataset(total_sig)



def body_cyc(a=Option("A", 0)):
    return ("cyc", a)


# a cyclic object graph: an overload of ds_cyc wraps a derivative of ds_cyc itself (derivatives share the overload table)
ds_cyc = dataset(body_cyc, dispatch="D")


def body_cyc_twice(v=ds_cyc.with_options({"D": "plain"})):
    return ("twice", v, v)


ds_cyc_twice = dataset(body_cyc_twice)
ds_cyc.register("twice", ds_cyc_twice)
ds_cyc.register("y", Option("C", "cyc-y"))



def double(v):
    return ("double", v)


def body_scaled(b=None, c=Option("C", 0)):
    return ("scaled", b, c)


# callbacks: a consumer with a callback over a dependency without one, and a callback that is itself a pipeline of steps
ds_plain_dep = dataset(body_dep)
ds_scaled = dataset(body_scaled, callback=double, defaults={"b": ds_plain_dep})
ds_two_steps = dataset(body_q, callback=__import__("labrea").pipeline.Pipeline() + double + upper)
ds_scaled_twice = dataset(body_scaled, callback=double, defaults={"b": ds_two_steps})



# dataset classes: at module level, and defined inside another class body (pickled by reference to their qualified name)
@__import__("labrea").datasetclass
class FlatDC:
    path: str = Option("A", "p")
    depth: int = Option("S.X", 1)


class Settings:
    @__import__("labrea").datasetclass
    class Source:
        path: str = Option("A", "p")
        depth: int = Option("S.X", 1)

    @__import__("labrea").datasetclass
    class Sink(Source):
        target: str = Option("C", "t")


def body_dc(flat=FlatDC, src=Settings.Source, sink=Settings.Sink, c=Option("C", 0)):
    return ("dc", repr(flat), src.path, src.depth, sink.target, sink.path, c)


ds_dataset_classes = dataset(body_dc)

# collections over ZERO members (their pickled state is falsy), nested in a non-empty one and as a dataset argument
import labrea as _labrea

expr_empties = _labrea.evaluatable_tuple(_labrea.evaluatable_list(), _labrea.evaluatable_dict({}), _labrea.evaluatable_set(), _labrea.evaluatable_tuple(), ds_a)


def body_empties(e=expr_empties, nothing=_labrea.evaluatable_list()):
    return ("empties", repr(e), nothing)


ds_empties = dataset(body_empties)

DISPATCH_KEY = {"ds_ns": "NS.A"}  # (others dispatch on D)
GRAPHS = {"expr_empties": expr_empties, "ds_empties": ds_empties, "ds_dataset_classes": ds_dataset_classes, "dc_nested": Settings.Sink, "ds_scaled": ds_scaled, "ds_two_steps": ds_two_steps, "ds_scaled_twice": ds_scaled_twice, "ds_cyc": ds_cyc, "ds_cyc_twice": ds_cyc_twice, "ds_total": ds_total, "ds_total_sig": ds_total_sig, "ds_quiet": ds_quiet, "ds_late": ds_late, "ds_ns": ds_ns, "ns": NS, "typed": typed, "ds_a": ds_a, "ds_c": ds_c, "ds_main": ds_main, "ds_abstract": ds_abstract, "ds_derived": ds_derived, "expr_root": expr_root}


# decorator form (recorded finding: the name of the function now refers to the Dataset)
@dataset
def deco(a=Option("A", 0)):
    return ("deco", a)


CORPUS = [
    {},
    {"A": 1},
    {"A": 1, "C": 2},
    {"A": 1, "C": 2, "D": "x"},
    {"C": 2, "D": "y"},
    {"C": 2, "D": "z", "S": {"X": "caller"}},
    {"C": 2, "D": "opt"},
    {"D": "unregistered"},
    {"E": "m", "C": 0},
    {"E": "c", "A": "{B}", "B": "bb"},
    {"E": "c", "A": "{B}"},
    {"E": "q", "C": [1, 2], "N1": 1},
    {"A": None, "C": False, "S": {"X": 0, "Y": 1}},
    {"D": "late", "E": "ee", "C": 1},
    {"D": "twice", "A": 3},
    {"NS": {"P": 9, "SUB": {"R": "rr"}}, "A": "x"},
    {"NS": {"P": "{C}", "EXTRA": 1}, "C": 5},
]
