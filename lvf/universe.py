"""Option universe and the *independent* dictionary semantics used by the oracles.

Nothing here imports labrea or confectioner: dotted lookup, overlay of pre-set /
default options and template substitution are re-implemented from the documented
behaviour, so that the reference interpreter is not the code under test.
"""
import copy
import itertools

# ---------------------------------------------------------------------------
# dotted lookup

ABSENT = type("Absent", (), {"__repr__": lambda s: "ABSENT"})()


def _part(p):
    try:
        return int(p)
    except ValueError:
        return p


def lookup(key, options):
    """Value stored under a dotted (possibly list-indexed) key, or ABSENT."""
    cur = options
    for p in key.split("."):
        p = _part(p)
        if isinstance(p, int):
            if not isinstance(cur, list):
                return ABSENT
            if -len(cur) <= p < len(cur):
                cur = cur[p]
            else:
                return ABSENT
        else:
            if not isinstance(cur, dict):
                return ABSENT
            if p in cur:
                cur = cur[p]
            else:
                return ABSENT
    return cur


def present(key, options):
    return lookup(key, options) is not ABSENT


def set_path(options, key, value):
    """Return a deep copy of options with dotted `key` (dict sections only) set."""
    out = copy.deepcopy(options)
    cur = out
    parts = key.split(".")
    for p in parts[:-1]:
        nxt = cur.get(p)
        if not isinstance(nxt, dict):
            nxt = {}
            cur[p] = nxt
        cur = nxt
    cur[parts[-1]] = copy.deepcopy(value)
    return out


def del_path(options, key):
    """Return a deep copy with the dotted key removed (dict sections and lists)."""
    out = copy.deepcopy(options)
    cur = out
    parts = [_part(p) for p in key.split(".")]
    for p in parts[:-1]:
        try:
            cur = cur[p]
        except (KeyError, IndexError, TypeError):
            return out
    try:
        del cur[parts[-1]]
    except (KeyError, IndexError, TypeError):
        pass
    return out


def restrict(options, keys):
    """Dictionary holding exactly the values of `keys`, in the original key order
    (a key running through a list keeps the whole list)."""
    keys = set(keys)

    def filt(node, prefix):
        out = {}
        for k, v in node.items():
            p = f"{prefix}{k}"
            if p in keys:
                out[k] = copy.deepcopy(v)
            elif any(x.startswith(p + ".") for x in keys):
                if isinstance(v, dict):
                    sub = filt(v, p + ".")
                    out[k] = sub
                elif isinstance(v, list):
                    out[k] = copy.deepcopy(v)
        return out

    return filt(options, "")


def _nest(key, value):
    parts = key.split(".")
    out = copy.deepcopy(value)
    for p in reversed(parts):
        out = {p: out}
    return out


def leaf_paths(options, prefix=""):
    """All dotted paths of a dictionary (sections, leaves and list elements)."""
    out = []
    if isinstance(options, dict):
        for k, v in options.items():
            p = f"{prefix}.{k}" if prefix else str(k)
            out.append(p)
            out.extend(leaf_paths(v, p))
    elif isinstance(options, list) and prefix:
        for i, v in enumerate(options):
            p = f"{prefix}.{i}"
            out.append(p)
            out.extend(leaf_paths(v, p))
    return out


# ---------------------------------------------------------------------------
# overlay: `top` over `base`; sections merged key by key, everything else replaced


def overlay(base, top):
    if not isinstance(base, dict):
        return copy.deepcopy(top)
    out = {k: copy.deepcopy(v) for k, v in base.items()}
    for k, v in top.items():
        if isinstance(v, dict):
            b = out.get(k)
            out[k] = overlay(b if isinstance(b, dict) else {}, v)
        else:
            out[k] = copy.deepcopy(v)
    return out


# ---------------------------------------------------------------------------
# template substitution


class MissingKey(Exception):
    def __init__(self, key, candidates=None):
        super().__init__(key)
        self.key = key
        self.candidates = set(candidates or [key])


def template_keys(text):
    """Unescaped {…} references in order of appearance (duplicates removed)."""
    keys = []
    i = 0
    n = len(text)
    while i < n:
        ch = text[i]
        if ch == "{" and (i == 0 or text[i - 1] != "\\"):
            j = i + 1
            ok = False
            while j < n:
                if text[j] == "\\":
                    break
                if text[j] == "}":
                    ok = True
                    break
                j += 1
            if ok:
                k = text[i + 1 : j]
                if k not in keys:
                    keys.append(k)
                i = j + 1
                continue
        i += 1
    return keys


def unescape(text):
    return text.replace("\\{", "{").replace("\\}", "}")


def substitute(value, options, reads=None, depth=0):
    """Resolve templated strings inside `value` against `options`, transitively.

    `reads` (a set) collects every option key looked up.
    """
    if depth > 40:
        raise RecursionError("template cycle")
    if isinstance(value, dict):
        return {k: substitute(v, options, reads, depth + 1) for k, v in value.items()}
    if isinstance(value, list):
        return [substitute(v, options, reads, depth + 1) for v in value]
    if not isinstance(value, str):
        return value
    keys = template_keys(value)
    if not keys:
        return unescape(value)
    missing = [k for k in keys if lookup(k, options) is ABSENT]
    if reads is not None:
        reads.update(keys)
    if missing:
        raise MissingKey(missing[0], missing)
    if len(keys) == 1 and value == "{" + keys[0] + "}":
        return substitute(lookup(keys[0], options), options, reads, depth + 1)
    for k in keys:
        value = value.replace("{" + k + "}", str(lookup(k, options)))
    return substitute(value, options, reads, depth + 1)


def contains_template(value):
    if isinstance(value, dict):
        return any(contains_template(v) for v in value.values())
    if isinstance(value, list):
        return any(contains_template(v) for v in value)
    return isinstance(value, str) and bool(template_keys(value))


# ---------------------------------------------------------------------------
# the option universe

TOP = ["A", "B", "C", "K-1", "K 2"]  # (K-1, K 2: legal option names that are not identifiers - a dash, a space)
SECTION_KEYS = ["S.X", "S.Y", "T.X"]
LIST_KEYS = ["L.0", "L.1", "L.-1"]  # (L.-1: the last element)
DISPATCH_KEYS = ["D", "E"]
NOISE = ["N1", "N2"]
SWITCHES = [
    "LABREA.CACHE.DISABLED",
    "LABREA.CACHE.DISABLE",
    "LABREA.EFFECTS.DISABLED",
    "LABREA.LOGGING.DISABLED",
]
READ_KEYS = TOP + SECTION_KEYS + ["S", "T", "L"] + LIST_KEYS + DISPATCH_KEYS

SCALARS = [0, 1, 2, -1, True, False, None, "", "a", "b"]
HASHABLE = [0, 1, 2, True, False, None, "", "a", "b", "x", "y"]
CONTAINERS = [[], [1], [0, "a"], [[1], 2]]
DICT_VALUES = [{}, {"X": 1}]  # only where no template can reference them mid-string (str(dict) has braces)
VALUES = SCALARS + CONTAINERS
TEMPLATED = ["{A}", "{S.X}-{B}", "{B}", "{C}", "p{T.X}q", "{S.Y}", "{L.0}", "{A}{B}", "{K-1}", "p{K 2}q", "{L.-1}"]
DISPATCH_VALUES = ["x", "y", "z", 0, 1, True, None, "a", "5%"]  # (5%: text with a percent sign ends up inside messages)


def random_value(rng, templated=0.15, containers=True):
    r = rng.random()
    if r < templated:
        return rng.choice(TEMPLATED)
    if containers and r < templated + 0.2:
        c = copy.deepcopy(rng.choice(CONTAINERS))
        if isinstance(c, list) and c and rng.random() < 0.3:
            c[0] = rng.choice(TEMPLATED[:5])
        return c
    return rng.choice(SCALARS)


def closed(options):
    """True when every templated reference in the dictionary resolves (no dangling, no cycle)."""
    try:
        substitute(options, options)
        return True
    except (MissingKey, RecursionError):
        return False


def _acyclic(options):
    """True when every templated reference chain terminates (depth <= 6)."""
    try:
        substitute_all_tolerant(options)
        return True
    except RecursionError:
        return False


def substitute_all_tolerant(options):
    def walk(v, d):
        if d > 8:
            raise RecursionError
        if isinstance(v, dict):
            for x in v.values():
                walk(x, d)
        elif isinstance(v, list):
            for x in v:
                walk(x, d)
        elif isinstance(v, str):
            for k in template_keys(v):
                t = lookup(k, options)
                if t is not ABSENT:
                    walk(t, d + 1)

    walk(options, 0)


def random_options(rng, p_present=0.6, templated=0.15, switches=False, scalar_sections=0.0, closed_only=False):
    """A dictionary over the universe; acyclic template references only."""
    for _ in range(50):
        o = {}
        for k in TOP:
            if rng.random() < p_present:
                o[k] = random_value(rng, templated)
        for sec, subs in (("S", ["X", "Y"]), ("T", ["X"])):
            if rng.random() < p_present:
                if rng.random() < scalar_sections:
                    o[sec] = rng.choice(SCALARS)  # a scalar where a section is expected
                else:
                    o[sec] = {
                        s: random_value(rng, templated, containers=rng.random() < 0.3)
                        for s in subs
                        if rng.random() < 0.7
                    }
        if rng.random() < p_present:
            n = rng.choice([0, 1, 2, 2, 3])
            o["L"] = [random_value(rng, templated * 0.7, containers=False) for _ in range(n)]
        for k in DISPATCH_KEYS:
            if rng.random() < p_present:
                o[k] = rng.choice(DISPATCH_VALUES) if rng.random() < 0.85 else rng.choice(["d{A}", "{B}e", "{A}", "{B}", "{C}"])  # (a dispatch value may be a reference: what it RESOLVES to selects)
        if rng.random() < 0.25:
            o[rng.choice(NOISE)] = rng.choice(SCALARS)
        if switches:
            pass
        if _acyclic(o) and (not closed_only or closed(o)):
            return o
    return {}


def perturb(rng, options, keys=None, kinds=("change", "delete", "add"), closed_only=False):
    """Single-key perturbation of `options`; returns (new_options, key, kind)."""
    keys = list(keys or READ_KEYS)
    for _ in range(20):
        k = rng.choice(keys)
        kind = rng.choice(kinds)
        cur = lookup(k, options)
        if kind == "delete":
            if cur is ABSENT:
                continue
            new = del_path(options, k)
        else:
            if "." in k and k.split(".")[0] == "L":
                # list element: rewrite the whole list
                lst = list(lookup("L", options)) if isinstance(lookup("L", options), list) else []
                idx = int(k.split(".")[1])
                while len(lst) <= idx or (idx < 0 and len(lst) < -idx):
                    lst.append(rng.choice(SCALARS))
                lst[idx] = _different(rng, lst[idx])
                new = set_path(options, "L", lst)
            elif k in ("S", "T", "L"):
                if k == "L":
                    v = [rng.choice(SCALARS) for _ in range(rng.choice([0, 1, 2]))]
                else:
                    v = {s: rng.choice(SCALARS) for s in ("X", "Y") if rng.random() < 0.7}
                if v == cur:
                    continue
                new = set_path(options, k, v)
            else:
                v = _different(rng, cur, dispatch=k in DISPATCH_KEYS)
                parent = k.rsplit(".", 1)[0] if "." in k else None
                if parent and not isinstance(lookup(parent, options), (dict, type(ABSENT))):
                    continue
                new = set_path(options, k, v)
        if new != options and _acyclic(new) and (not closed_only or closed(new)):
            return new, k, kind
    return copy.deepcopy(options), None, None


def _different(rng, cur, dispatch=False):
    pool = DISPATCH_VALUES + ["d{A}"] if dispatch else SCALARS + ["{A}", "{B}"]
    for _ in range(20):
        v = rng.choice(pool)
        if cur is ABSENT or v != cur or type(v) is not type(cur):
            return v
    return "zz"


def with_noise(rng, options):
    """Add a never-mentioned key that is not there yet (a fresh name if both noise keys are taken)."""
    out = copy.deepcopy(options)
    free = [k for k in NOISE if k not in out] or [next(f"N{i}" for i in range(3, 99) if f"N{i}" not in out)]
    out[rng.choice(free)] = rng.choice(SCALARS + [[1], {"Q": 1}])
    return out


def permuted(rng, options):
    items = list(options.items())
    rng.shuffle(items)
    return {k: copy.deepcopy(v) for k, v in items}


def history(rng, length, keys=None, p_present=0.6, templated=0.15, permute=True, closed_only=False):
    """Sequence of colliding dictionaries: perturbations, revisits, noise, permutations."""
    base = random_options(rng, p_present, templated, closed_only=closed_only)
    seq = [base]

    def reach(src):
        # the keys the program mentions AND the keys the dictionary's own templated values refer to (a program that
        # reads A depends on K-1 when A holds '{K-1}')
        if keys is None:
            return None
        extra = sorted(k for k in _all_refs(src) if k not in keys and all(p for p in k.split(".")))
        return list(keys) + extra

    while len(seq) < length:
        r = rng.random()
        src = rng.choice(seq)
        if r < 0.5:
            new, _, _ = perturb(rng, src, reach(src), closed_only=closed_only)
        elif r < 0.62:
            new, _, _ = perturb(rng, src, reach(src), closed_only=closed_only)
            new, _, _ = perturb(rng, new, reach(new), closed_only=closed_only)
        elif r < 0.74:
            new = copy.deepcopy(src)
        elif r < 0.84:
            new = with_noise(rng, src)
        elif r < 0.92 and permute:
            new = permuted(rng, src)
        else:
            new = random_options(rng, p_present, templated, closed_only=closed_only)
        seq.append(new)
    return seq


def _all_refs(value):
    if isinstance(value, dict):
        return set().union(*[_all_refs(v) for v in value.values()]) if value else set()
    if isinstance(value, list):
        return set().union(*[_all_refs(v) for v in value]) if value else set()
    if isinstance(value, str):
        return set(template_keys(value))
    return set()


def sub_dictionaries(options, limit=256):
    """Every dictionary obtained by deleting a subset of leaf paths (up to limit)."""
    paths = [p for p in leaf_paths(options) if not isinstance(lookup(p, options), dict)]
    paths = paths[:8]
    out = []
    for r in range(len(paths) + 1):
        for combo in itertools.combinations(paths, r):
            d = options
            for p in sorted(combo, reverse=True):
                d = del_path(d, p)
            out.append(d)
            if len(out) >= limit:
                return out
    return out
