"""Execution log, probe callables and fault plans (DESIGN §2.2).

Every user callable handed to labrea by the harness is a probe: it appends an
event to the log *before* doing anything else, consults the fault plan and then
returns a deterministic value that spells out who computed it from what.
"""
import threading

from .outcome import canon, realise


class InjectedFault(Exception):
    """Custom exception class used by fault plans."""


FAULT_CLASSES = {
    "ValueError": ValueError,
    "KeyError": KeyError,
    "ZeroDivisionError": ZeroDivisionError,
    "InjectedFault": InjectedFault,
    "TypeError": TypeError,
    "RuntimeError": RuntimeError,
    "AttributeError": AttributeError,
    "OSError": OSError,
    # exception types that generic "let this one through" clauses tend to single out
    "RecursionError": RecursionError,
    "AssertionError": AssertionError,
    "LookupError": LookupError,
    "NotImplementedError": NotImplementedError,
}


class Log:
    """Ordered execution log shared by all probes of one built program."""

    def __init__(self):
        self.events = []  # (serial, kind, pid, info, thread-name)
        self.serial = 0
        self.shadow = 0  # >0: probes neither log nor fault (monitor's own evaluations)
        self.faults = {}  # pid -> (exc-class-name, trigger) ; trigger: None | int | ("arg", canon)
        self.calls = {}  # pid -> number of calls seen (for triggers)
        self.raised = []  # exception instances raised by the plan
        self.lock = threading.Lock()

    def __deepcopy__(self, memo):
        # the log is the monitor's state, not the program's: copies of a probed object report to the same log
        return self

    def hit(self, kind, pid, info=None):
        if self.shadow:
            return None
        with self.lock:
            self.serial += 1
            n = self.calls.get(pid, 0)
            self.calls[pid] = n + 1
            self.events.append((self.serial, kind, pid, info, threading.current_thread().name))
            plan = self.faults.get(pid)
        if plan is not None:
            cls, trigger = plan
            if trigger is None or trigger == n or (isinstance(trigger, list) and n in trigger):
                exc = _make_exc(cls, pid)
                self.raised.append(exc)
                raise exc
        return n

    def mark(self):
        return len(self.events)

    def since(self, mark, kinds=None):
        ev = self.events[mark:]
        if kinds is not None:
            ev = [e for e in ev if e[1] in kinds]
        return ev

    def count(self, mark=0, kind=None, pid=None):
        return sum(
            1
            for e in self.events[mark:]
            if (kind is None or e[1] == kind) and (pid is None or e[2] == pid)
        )

    class _Shadow:
        def __init__(self, log):
            self.log = log

        def __enter__(self):
            self.log.shadow += 1

        def __exit__(self, *a):
            self.log.shadow -= 1

    def shadowed(self):
        return Log._Shadow(self)


def _make_exc(cls, pid):
    if cls == "EvaluationError":
        from labrea.exceptions import EvaluationError
        from labrea.types import Value

        return EvaluationError(f"injected at {pid}", Value(("foreign", pid)))
    if cls == "CacheGetFailure":
        from labrea.cache import CacheGetFailure, MemoryCache
        from labrea.types import Value

        return CacheGetFailure(Value(("foreign", pid)), {}, MemoryCache())
    if cls == "KeyNotFoundError":
        from labrea.exceptions import KeyNotFoundError
        from labrea.types import Value

        return KeyNotFoundError("INJECTED", Value(("foreign", pid)))
    return FAULT_CLASSES[cls](f"injected at {pid}")


# ---------------------------------------------------------------------------
# pure function tables shared by builder and reference interpreter


def _f1(x):
    return ("f1", realise(x))


def _f2(x):
    return ("f2", realise(x))


def _isnone(x):
    return x is None


def _truthy(x):
    return bool(x)


def _is_str(x):
    return isinstance(x, str)


def _is_int(x):
    return isinstance(x, int) and not isinstance(x, bool)


def _tolist(x):
    return list(x)


def _totuple(x):
    return tuple(x)


def _tostr(x):
    # order-insensitive for mappings: dictionary key order is not part of a value
    return "str:" + repr(canon(realise(x)))


def _always(x):
    return True


def _never(x):
    return False


FUNCS = {"f1": _f1, "f2": _f2, "isnone": _isnone, "truthy": _truthy, "tostr": _tostr}
PREDS = {
    "isnone": _isnone,
    "truthy": _truthy,
    "is_str": _is_str,
    "is_int": _is_int,
    "always": _always,
    "never": _never,
}


def pred(name):
    """Predicate by name; 'eq:<json>' compares canonical forms."""
    if name.startswith("eq:"):
        import json

        target = canon(json.loads(name[3:]))
        return lambda x: canon(x) == target
    return PREDS[name]
