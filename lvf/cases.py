"""Shared workload helpers for the checks."""
import copy
import random

from . import boot  # noqa: F401
import labrea.cache

from . import universe as U
from .build import build
from .gen import random_program, spec_hash
from .outcome import observe, same
from .ref import Ref, RefErr, kinds_of


def eval_uncached(obj, o, log=None):
    """Outcome of obj.evaluate(o) with caching switched off for this call."""
    with labrea.cache.disabled():
        return observe(obj.evaluate, o)


def ref_outcome(program, o, faults=None):
    r = Ref(program, faults)
    try:
        out = r.run(o)
    except RecursionError:
        return None, r
    return out, r


def agree_with_ref(got, exp, ref_err_candidates=None, lenient_kind=False):
    """Compare a real outcome with the reference outcome.

    Missing-key failures must both be missing-key failures; which of several
    absent keys is named first depends on set iteration inside a template, so
    the key is compared against the reference's candidate set only when given.
    """
    if exp is None:
        return True
    if got[0] != exp[0]:
        return False
    if got[0] == "ok":
        return got[1] == exp[1]
    if got[1] != exp[1]:
        return lenient_kind
    return True


def case_rng(ctx, i):
    return random.Random(f"{ctx.prop}:{ctx.seed}:{ctx.shard}:{i}")


def program_for(rng, depth, features=None, n_datasets=None):
    return random_program(rng, max_depth=depth, features=features, n_datasets=n_datasets)


def has_kind(program, *kinds):
    ks = kinds_of(program)
    return any(k in ks for k in kinds)
