"""Three-valued verdicts, coverage counters, evidence writer, known findings.

A check module exposes PROPERTY, LEVEL, RULE and run(ctx).  `ctx` collects
counters, distinct non-trivial case hashes, samples and violations; main.py
merges shard results, matches violations against known_findings.json and writes
evidence/<id>.json validated against the schema.
"""
import hashlib
import json
import os
import random
import time

from .boot import VERIF


def h(obj):
    return hashlib.sha1(json.dumps(obj, sort_keys=True, default=repr).encode()).hexdigest()[:16]


class Ctx:
    def __init__(self, prop, tier, seed, shard=0, shards=1, replay=None):
        self.prop = prop
        self.tier = tier
        self.seed = seed
        self.shard = shard
        self.shards = shards
        self.replay = replay
        self.rng = random.Random(f"{prop}:{seed}:{shard}")
        self.counters = {}
        self.distinct = set()
        self.samples = []
        self.violations = []  # dicts: {monitor, msg, witness}
        self.inconclusive = []
        self.evaluations = 0
        self.t0 = time.time()
        self.sets = {}
        self.checkpoint = None  # path: what has been observed so far is saved there whenever a violation is recorded

    @property
    def quick(self):
        return self.tier == "quick"

    def n(self, quick, thorough):
        """Workload size for this shard."""
        total = quick if self.quick else thorough
        return max(1, total // self.shards)

    def count(self, name, k=1):
        self.counters[name] = self.counters.get(name, 0) + k

    def cover(self, name, item):
        self.sets.setdefault(name, set()).add(item)

    def nontrivial(self, case):
        self.distinct.add(case if isinstance(case, str) else h(case))

    def sample(self, case, limit=4):
        if len(self.samples) < limit:
            self.samples.append(case)

    def violation(self, monitor, msg, witness):
        if len(self.violations) < 200:
            self.violations.append({"monitor": monitor, "msg": msg, "witness": witness})
        self.count("violations_raw")
        if self.checkpoint and len(self.violations) <= 20:
            # a shard that hangs or crashes later (a broken tree may do either) must not take its witnesses with it
            try:
                with open(self.checkpoint + ".tmp", "w") as f:
                    json.dump(self.result(), f, default=repr)
                os.replace(self.checkpoint + ".tmp", self.checkpoint)
            except OSError:
                pass

    def elapsed(self):
        return time.time() - self.t0

    def result(self):
        return {
            "counters": self.counters,
            "distinct": sorted(self.distinct),
            "samples": self.samples,
            "violations": self.violations,
            "inconclusive": self.inconclusive,
            "evaluations": self.evaluations,
            "sets": {k: sorted(map(str, v)) for k, v in self.sets.items()},
        }


def merge(results):
    out = {
        "counters": {},
        "distinct": set(),
        "samples": [],
        "violations": [],
        "inconclusive": [],
        "evaluations": 0,
        "sets": {},
    }
    for r in results:
        for k, v in r["counters"].items():
            out["counters"][k] = out["counters"].get(k, 0) + v
        out["distinct"].update(r["distinct"])
        out["samples"].extend(r["samples"][:2])
        out["violations"].extend(r["violations"])
        out["inconclusive"].extend(r["inconclusive"])
        out["evaluations"] += r["evaluations"]
        for k, v in r["sets"].items():
            out["sets"].setdefault(k, set()).update(v)
    out["samples"] = out["samples"][:6]
    return out


# ---------------------------------------------------------------------------
# known findings


def load_findings():
    path = os.path.join(VERIF, "known_findings.json")
    if not os.path.exists(path):
        return []
    with open(path) as f:
        return json.load(f).get("findings", [])


def classify(prop, violations, findings):
    """Split violations into (known {finding-id: [v]}, unknown [v]).

    A violation matches a finding only through the mechanism tag the check's own
    classifier put on the witness (`mechanism`), which the check derives by a
    predicate over the witness *and* a neutralisation test.  `fixed` entries
    never match.
    """
    known, unknown = {}, []
    active = {f["id"]: f for f in findings if f.get("property") == prop and f.get("status") == "known"}
    for v in violations:
        mech = v.get("witness", {}).get("mechanism")
        if mech and mech in active:
            known.setdefault(mech, []).append(v)
        else:
            unknown.append(v)
    return known, unknown


def write_replay(prop, v):
    d = os.path.join(os.environ.get("LVF_OUT", VERIF), "replays", prop)
    os.makedirs(d, exist_ok=True)
    name = h(v["witness"]) + ".json"
    path = os.path.join(d, name)
    with open(path, "w") as f:
        json.dump({"property": prop, **v}, f, indent=1, default=repr)
    return path


def write_evidence(prop, level, tier, seed, merged, rule, wall, assumptions, n_viol, floors_failed, extra=None):
    cov = {
        "evaluations": int(merged["evaluations"]),
        "distinct_nontrivial": len(merged["distinct"]),
        "rule": rule,
        "samples": merged["samples"] or ["<none>"],
        "monitor_counters": merged["counters"],
        "covered": {k: sorted(v) for k, v in merged["sets"].items()},
        "inconclusive_reasons": merged["inconclusive"] + floors_failed,
        "exhaustive": False,
    }
    if extra:
        cov.update(extra)
    ev = {
        "property_id": prop,
        "tier": tier,
        "seed": seed,
        "level": level,
        "coverage": cov,
        "assumptions": assumptions,
        "wall_s": round(wall, 2),
        "violations": n_viol,
    }
    path = os.path.join(os.environ.get("LVF_OUT", VERIF), "evidence", f"{prop}.json")
    os.makedirs(os.path.dirname(path), exist_ok=True)
    text = json.dumps(ev, indent=1, default=repr)
    try:
        import jsonschema

        with open("/root/.vp/EVIDENCE.schema.json") as f:
            schema = json.load(f)
        jsonschema.validate(json.loads(text), schema)
    except FileNotFoundError:
        pass
    with open(path, "w") as f:
        f.write(text)
    return path
