"""Request-level recorder installed through labrea's own runtime (DESIGN §2.4).

`Tap()` is a context manager: it derives a runtime from the current one with a
pass-through handler for every request type labrea issues.  Each pass-through
pushes the request on a per-thread stack, delegates to the handler that was
current when the tap was installed, records result / exception and pops.
"""
import threading

from . import boot  # noqa: F401
from labrea import runtime as _rt
from labrea.cache import CacheExistsRequest, CacheGetRequest, CacheSetRequest
from labrea.logging import LogRequest
from labrea.type_validation import TypeValidationRequest
from labrea.types import EvaluateRequest, ExplainRequest, KeysRequest, ValidateRequest

REQUEST_TYPES = [
    EvaluateRequest,
    ValidateRequest,
    KeysRequest,
    ExplainRequest,
    CacheExistsRequest,
    CacheGetRequest,
    CacheSetRequest,
    LogRequest,
    TypeValidationRequest,
]
SHORT = {
    EvaluateRequest: "evaluate",
    ValidateRequest: "validate",
    KeysRequest: "keys",
    ExplainRequest: "explain",
    CacheExistsRequest: "cache_exists",
    CacheGetRequest: "cache_get",
    CacheSetRequest: "cache_set",
    LogRequest: "log",
    TypeValidationRequest: "type_validation",
}


def subject(request):
    for attr in ("evaluatable", "validatable", "cacheable", "explainable"):
        if hasattr(request, attr):
            return getattr(request, attr)
    return None


class Recorder:
    """A handler is any callable.  This one is also an (empty) container - a call recorder, a Counter with __call__ -
    so its truth value is False: being installed, not being truthy, is what makes it serve."""

    def __init__(self, fn):
        self.fn = fn

    def __call__(self, request):
        return self.fn(request)

    def __len__(self):
        return 0


class Tap:
    def __init__(self, types=None, on_event=None, keep=True):
        self.types = list(types or REQUEST_TYPES)
        self.events = []  # (type-name, request, depth, status, result)
        self.counts = {}
        self.on_event = on_event  # callable(phase, kind, request, stack, result)
        self.keep = keep
        self._local = threading.local()
        self.paused = 0
        self._rt = None

    def stack(self):
        st = getattr(self._local, "stack", None)
        if st is None:
            st = self._local.stack = []
        return st

    def _passthrough(self, T, inner):
        kind = SHORT.get(T, T.__name__)

        def handler(request):
            if self.paused:
                return inner(request)
            st = self.stack()
            st.append((kind, request))
            self.counts[kind] = self.counts.get(kind, 0) + 1
            if self.on_event:
                self.on_event("call", kind, request, st, None)
            try:
                result = inner(request)
            except BaseException as e:
                st.pop()
                if self.keep:
                    self.events.append((kind, request, len(st), "raise", e))
                if self.on_event:
                    self.on_event("raise", kind, request, st, e)
                raise
            st.pop()
            if self.keep:
                self.events.append((kind, request, len(st), "return", result))
            if self.on_event:
                self.on_event("return", kind, request, st, result)
            return result

        return Recorder(handler)

    def __enter__(self):
        cur = _rt.current_runtime()
        handlers = {}
        for T in self.types:
            inner = cur.handlers.get(T)
            if inner is None:
                inner = _rt._DEFAULT_HANDLERS.get(T)
            if inner is None:
                continue
            handlers[T] = self._passthrough(T, inner)
        self._rt = cur.handle(handlers)
        self._rt.__enter__()
        return self

    def __exit__(self, *exc):
        return self._rt.__exit__(*exc)

    def of(self, kind, status=None):
        return [e for e in self.events if e[0] == kind and (status is None or e[3] == status)]

    def clear(self):
        self.events.clear()
