"""Independent, eager, memo-free reference interpreter over specs (DESIGN §2.3).

Imports neither labrea nor confectioner.  Returns plain Python values; failures
are RefErr(kind[, key]).  Records the bodies / effects / step functions it runs,
in order, and computes syntactic may-read key sets.
"""
import copy
import itertools
from collections.abc import Container

from . import universe as U
from .outcome import RefIter, canon, realise
from .probes import FUNCS, pred

MISSING_DISPATCH = ("<no-dispatch>",)


class RefErr(Exception):
    def __init__(self, kind, key=None, candidates=None):
        super().__init__(kind, key)
        self.kind = kind
        self.key = key
        self.candidates = set(candidates or ([key] if key is not None else []))

    def outcome(self):
        return ("err", self.kind, self.key)


def _pid(spec, prefix, fallback):
    return f"{prefix}{spec['n']}" if "n" in spec else f"{prefix}:{fallback}"


def is_expr_condition(p):
    return isinstance(p, str) and p.startswith(("eqopt", "eqds:"))


def cond_spec(case, i):
    """The (one, identity-stable) expression node of the i-th condition of a case spec, or None for a plain predicate."""
    p = case["cases"][i][0]
    if not is_expr_condition(p):
        return None
    return case.setdefault("_conds", {}).setdefault(str(i), cond_option(p))


def cond_option(p):
    """The expression a condition 'equals the value of ...' reads: 'eqopt:KEY' / 'eqopt!:KEY' (no default) an option,
    'eqds:ID' a dataset."""
    if p.startswith("eqds:"):
        return {"k": "ds", "id": p.split(":", 1)[1]}
    required = p.startswith("eqopt!:")
    key = p.split(":", 1)[1]
    return {"k": "opt", "key": key} if required else {"k": "opt", "key": key, "dk": "const", "dv": "<no-such-value>"}


class Ref:
    def __init__(self, program, faults=None):
        self.program = program
        self.datasets = program.get("datasets", {})
        self.ran = []  # (kind, pid, info) in execution order
        self.faults = faults or {}
        self.selected = []  # (dataset-id, tag) chosen at every dataset evaluation
        self.unselected = []  # spec nodes of alternatives that were decided against (C06 laziness oracle)
        self.unused_factories = set()  # default factories of options whose key was present
        self.substitutes = {}  # dataset id -> constant (C18 substitution oracle)

    # -- helpers ----------------------------------------------------------
    def _hit(self, kind, pid, info=None):
        self.ran.append((kind, pid, info))
        plan = self.faults.get(pid)
        if plan is not None and plan[1] is None:
            raise RefErr(plan[0] if plan[0] not in ("EvaluationError", "CacheGetFailure") else plan[0])

    def outcome(self, spec, options):
        try:
            v = self.eval(spec, options)
            return ("ok", canon(v))
        except RefErr as e:
            return e.outcome()

    def run(self, options):
        return self.outcome(self.program["root"], options)

    # -- evaluation -------------------------------------------------------
    def eval(self, spec, o):
        return getattr(self, "_" + spec["k"])(spec, o)

    def _const(self, s, o):
        v = copy.deepcopy(s["v"])
        return tuple(v) if s.get("as") == "tuple" else v

    def _opt(self, s, o):
        raw = U.lookup(s["key"], o)
        if raw is not U.ABSENT:
            if s.get("dk") == "spec":
                self.unselected.append(s["dv"])  # the default of a present option
            elif s.get("dk") == "factory":
                self.unused_factories.add(_pid(s, "fac", s["key"]))
            try:
                value = U.substitute(raw, o)
            except U.MissingKey as e:
                raise RefErr("KeyNotFoundError", e.key, e.candidates)
        else:
            dk = s.get("dk", "none")
            if dk == "none":
                raise RefErr("KeyNotFoundError", s["key"])
            value = self._default(s, o)
        self._domain(s, value, o)
        return value

    def _default(self, s, o):
        dk, dv = s["dk"], s.get("dv")
        if dk == "const":
            if isinstance(dv, str):
                return self._tmpl({"k": "tmpl", "text": dv, "params": []}, o)
            return copy.deepcopy(dv)
        if dk == "tmpl":
            return self._tmpl({"k": "tmpl", "text": dv, "params": []}, o)
        if dk == "factory":
            self._hit("factory", _pid(s, "fac", s["key"]))
            return copy.deepcopy(dv)
        if dk == "spec":
            return self.eval(dv, o)
        raise AssertionError(dk)

    def _domain(self, s, value, o):
        dom = s.get("dom")
        if not dom:
            return
        kind, payload = dom
        if kind == "container":
            domain = payload
        elif kind == "pred":
            self._hit("dompred", _pid(s, "dom", s["key"]))
            if not pred(payload)(value):
                raise RefErr("ValueError")
            return
        else:
            domain = self.eval(payload, o)
        if not callable(domain) and not isinstance(domain, Container):
            return
        try:
            if callable(domain) and not domain(value):
                raise RefErr("ValueError")
            if isinstance(domain, Container) and value not in domain:
                raise RefErr("ValueError")
        except TypeError:
            raise RefErr("TypeError")

    def _tmpl(self, s, o):
        extra = {}
        for name, ps in s.get("params", []):
            extra[f":{name}:"] = self.eval(ps, o)
        opts = dict(o)
        opts.update(extra)
        try:
            return str(U.substitute(s["text"], opts))
        except U.MissingKey as e:
            raise RefErr("KeyNotFoundError", e.key, e.candidates)

    def _user(self, s, o):
        return self.eval(s["spec"], o)

    def _dc(self, s, o):
        # members are evaluated in dir() order, i.e. sorted by name
        vals = {}
        for n, sp in sorted(s["members"], key=lambda m: m[0]):
            vals[n] = realise(self.eval(sp, o))
        return ("dc", tuple((n, vals[n]) for n in sorted(vals)))

    def _apply(self, s, o):
        x = self.eval(s["src"], o)
        fn = s["fn"]
        if isinstance(fn, dict):  # step with option-valued parameters
            params = {}
            for name, ps in fn.get("params", []):
                params[name] = self.eval(ps, o)
            self._hit("step", _pid(fn, "st", fn["name"]))
            return ("step", fn["name"], realise(x), tuple(realise(params[n]) for n, _ in fn.get("params", [])))
        self._hit("fn", _pid(s, "fn", fn))
        return FUNCS[fn](x)

    def _bind(self, s, o):
        x = self.eval(s["src"], o)
        self._hit("bindfn", _pid(s, "bd", "bind"))
        branch = s["else"]
        cx = canon(x)
        for v, b in s["table"]:
            if canon(v) == cx:
                branch = b
                break
        return self.eval(branch, o)

    def _switch(self, s, o):
        disp = s["disp"]
        if isinstance(disp, str):
            disp = {"k": "opt", "key": disp}
        default = s.get("default")
        try:
            d = self.eval(disp, o)
        except RefErr:
            if default is None:
                raise
            return self.eval(default, o)
        try:
            table = {}
            for v, b in s["table"]:
                table[_hashable(v)] = b
            found = d in table
        except TypeError:  # unhashable dispatch value: no branch matches
            found = False
        if not found:
            self.unselected.extend(b for _, b in s["table"])
            if default is None:
                raise RefErr("SwitchError")
            return self.eval(default, o)
        chosen = table[d]
        self.unselected.extend(b for _, b in s["table"] if b is not chosen)
        if default is not None:
            self.unselected.append(default)
        return self.eval(chosen, o)

    def _case(self, s, o):
        d = self.eval(s["disp"], o)
        for i, (p, res) in enumerate(s["cases"]):
            if is_expr_condition(p):
                # the condition is an expression: "equals the value of option K" (evaluated under the same options)
                t = self.eval(cond_spec(s, i), o)
                self._hit("pred", f"cp{s['n']}.{i}" if "n" in s else f"cp:{p}")
                matched = canon(d) == canon(t)
            else:
                self._hit("pred", f"cp{s['n']}.{i}" if "n" in s else f"cp:{p}")
                matched = pred(p)(d)
            if matched:
                self.unselected.extend(r2 for j, (_, r2) in enumerate(s["cases"]) if j != i)
                self.unselected.extend(cond_spec(s, j) for j in range(i + 1, len(s["cases"])) if cond_spec(s, j) is not None)  # conditions never consulted
                if s.get("default") is not None:
                    self.unselected.append(s["default"])
                return self.eval(res, o)
        self.unselected.extend(r2 for _, r2 in s["cases"])
        if s.get("default") is not None:
            return self.eval(s["default"], o)
        raise RefErr("CaseWhenError")

    def _coalesce(self, s, o):
        last = None
        for i, m in enumerate(s["members"]):
            try:
                v = self.eval(m, o)
                self.unselected.extend(s["members"][i + 1:])  # members after the first success
                return v
            except RefErr as e:
                last = e
        raise last

    def _list(self, s, o):
        return [realise_iter(self.eval(i, o)) for i in s["items"]]

    def _tuple(self, s, o):
        return tuple(realise_iter(self.eval(i, o)) for i in s["items"])

    def _set(self, s, o):
        try:
            return set(self.eval(i, o) for i in s["items"])
        except TypeError:
            raise RefErr("TypeError")

    def _dict(self, s, o):
        out = {}
        try:
            for k, vs in s["items"]:
                out[_hashable(k)] = self.eval(vs, o)
        except TypeError:
            raise RefErr("TypeError")
        return out

    def _iter(self, s, o):
        return RefIter(self.eval(i, o) for i in s["items"])

    def _map(self, s, o):
        its = []
        for key, ispec in s["iters"]:
            v = self.eval(ispec, o)
            try:
                its.append(list(v))
            except TypeError:
                raise RefErr("TypeError")
        out = RefIter()
        for combo in itertools.product(*its):
            assign = {}
            for (key, _), v in zip(s["iters"], combo):
                assign = U.overlay(assign, U._nest(key, v)) if "." in key else {**assign, key: copy.deepcopy(v)}
            flat = {key: copy.deepcopy(v) for (key, _), v in zip(s["iters"], combo)}
            val = self.eval(s["body"], U.overlay(o, assign))
            out.append((flat, val))
        if s.get("values"):
            return RefIter(v for _, v in out)
        return out

    def _with(self, s, o):
        o2 = U.overlay(o, s["P"]) if s.get("force", True) else U.overlay(s["P"], o)
        return self.eval(s["spec"], o2)

    def _cached(self, s, o):
        return self.eval(s["spec"], o)

    def _allopts(self, s, o):
        try:
            return U.substitute(o, o)
        except U.MissingKey as e:
            raise RefErr("KeyNotFoundError", e.key, e.candidates)

    # -- datasets ---------------------------------------------------------
    def _ds(self, s, o):
        did = str(s["id"])
        d = self.datasets[did]
        extraP = s.get("P")  # derivative: with_options
        extraD = s.get("D")  # derivative: with_default_options
        if did in self.substitutes:
            return copy.deepcopy(self.substitutes[did])
        P = d.get("options") or {}
        D = d.get("default_options") or {}
        if extraP:
            P = U.overlay(P, extraP)
        if extraD:
            D = U.overlay(D, extraD)
        for which, opts in s.get("chain") or []:
            if which == "P":
                P = U.overlay(P, opts)
            else:
                D = U.overlay(D, opts)
        o2 = U.overlay(U.overlay(D, o), P)
        impl, tag = self._select(d, did, o2)
        self.selected.append((did, tag))
        for alias, other in d.get("overloads", []):
            if other is not impl:
                self.unselected.extend(_impl_specs(other))
        if tag != "default" and not d.get("abstract"):
            self.unselected.extend(_impl_specs({"args": d.get("args", []), "expr": d.get("expr")}))
        value = self._run_impl(did, tag, impl, o2)
        cb = d.get("callback")
        if cb:
            self._hit("callback", f"cb{did}")
            value = ("cb", cb, value)
        if not _effects_off(o2) and not d.get("effects_disabled"):
            for i, _ in enumerate(d.get("effects", [])):
                self._hit("effect", f"ef{did}.{i}", canon(value))
        return value

    def _select(self, d, did, o2):
        default = None if d.get("abstract") else {"args": d.get("args", []), "expr": d.get("expr"), "via": d.get("via")}
        disp = d.get("dispatch")
        overloads = d.get("overloads", [])
        if disp is None:
            if default is None:
                raise RefErr("SwitchError")
            return default, "default"
        if isinstance(disp, str):
            disp = {"k": "opt", "key": disp}
        try:
            v = self.eval(disp, o2)
        except RefErr:
            if default is None:
                raise
            return default, "default"
        table = {}
        try:
            for alias, impl in overloads:
                first = alias[0] if isinstance(alias, list) else alias
                tag = impl.get("tag") or f"ov:{first!r}"
                for a in alias if isinstance(alias, list) else [alias]:
                    table[_hashable(a)] = (impl, tag)
            found = v in table
        except TypeError:  # unhashable dispatch value: no implementation matches
            found = False
        if found:
            return table[v]
        if default is None:
            raise RefErr("SwitchError")
        return default, "default"

    def _run_impl(self, did, tag, impl, o2):
        if impl.get("ds") is not None:  # overload is another dataset
            return self._ds({"k": "ds", "id": impl["ds"]}, o2)
        if impl.get("expr") is not None:
            return self.eval(impl["expr"], o2)
        specs = [a for _, a in impl.get("args", [])]
        order = list(range(len(specs)))
        if (impl.get("via") or {}).get("defaults") == "var_kwargs":
            # parameters of the signature are evaluated first, the ones that arrive through **kwargs afterwards
            # (only the order in which independent arguments FAIL depends on this)
            order = order[1::2] + order[0::2]
        vals = {}
        for i in order:
            vals[i] = realise(self.eval(specs[i], o2))
        args = [vals[i] for i in range(len(specs))]
        pid = f"ds{did}:{tag}"
        self._hit("body", pid, canon(args))
        return (f"ds{did}", tag) + tuple(args)

    # -- static analysis ----------------------------------------------------
    def may_read(self, spec, shadow=frozenset(), seen=None):
        """Syntactic closure of option keys a spec can read ('*' = everything)."""
        seen = set() if seen is None else seen
        out = set()
        k = spec["k"]

        def sub(x, sh=shadow):
            if x is not None:
                out.update(self.may_read(x, sh, seen))

        def add(key):
            if not _shadowed(key, shadow):
                out.add(key)

        if k == "const":
            pass
        elif k == "opt":
            add(spec["key"])
            if spec.get("dk") in ("const", "tmpl") and isinstance(spec.get("dv"), str):
                for t in U.template_keys(spec["dv"]):
                    add(t)
            if spec.get("dk") == "spec":
                sub(spec["dv"])
            if spec.get("dom") and spec["dom"][0] == "spec":
                sub(spec["dom"][1])
        elif k == "tmpl":
            for t in U.template_keys(spec["text"]):
                if not (t.startswith(":") and t.endswith(":")):
                    add(t)
            for _, ps in spec.get("params", []):
                sub(ps)
        elif k == "apply":
            sub(spec["src"])
            if isinstance(spec["fn"], dict):
                for _, ps in spec["fn"].get("params", []):
                    sub(ps)
        elif k == "bind":
            sub(spec["src"])
            for _, b in spec["table"]:
                sub(b)
            sub(spec["else"])
        elif k == "switch":
            d = spec["disp"]
            sub({"k": "opt", "key": d} if isinstance(d, str) else d)
            for _, b in spec["table"]:
                sub(b)
            sub(spec.get("default"))
        elif k == "case":
            sub(spec["disp"])
            for i_, (p_, b) in enumerate(spec["cases"]):
                if is_expr_condition(p_):
                    sub(cond_spec(spec, i_))  # a condition that is itself an expression over the options
                sub(b)
            sub(spec.get("default"))
        elif k == "coalesce":
            for m in spec["members"]:
                sub(m)
        elif k in ("list", "tuple", "set", "iter"):
            for i in spec["items"]:
                sub(i)
        elif k == "dict":
            for _, v in spec["items"]:
                sub(v)
        elif k == "dc":
            for _, m in spec["members"]:
                sub(m)
        elif k == "user":
            sub(spec["spec"])
        elif k == "map":
            for _, i in spec["iters"]:
                sub(i)
            sub(spec["body"], shadow | _leaf_shadow_keys([key for key, _ in spec["iters"]]))
        elif k == "with":
            if spec.get("force", True):
                sub(spec["spec"], shadow | _leaf_shadow(spec["P"]))
            else:
                sub(spec["spec"])
            for t in _template_refs(spec["P"]):
                add(t)
        elif k == "cached":
            sub(spec["spec"])
        elif k == "allopts":
            out.add("*")
        elif k == "ds":
            did = str(spec["id"])
            key = (did, shadow, repr(spec.get("P")), repr(spec.get("chain")))
            if key in seen:
                return out
            seen.add(key)
            d = self.datasets[did]
            P = U.overlay(d.get("options") or {}, spec.get("P") or {})
            D = U.overlay(d.get("default_options") or {}, spec.get("D") or {})
            for which, opts in spec.get("chain") or []:
                if which == "P":
                    P = U.overlay(P, opts)
                else:
                    D = U.overlay(D, opts)
            sh = shadow | _leaf_shadow(P)
            for t in _template_refs(P) | _template_refs(D):
                add(t)
            disp = d.get("dispatch")
            if disp is not None:
                sub({"k": "opt", "key": disp} if isinstance(disp, str) else disp, sh)
            for _, a in d.get("args", []):
                sub(a, sh)
            if d.get("expr") is not None:
                sub(d["expr"], sh)
            for _, impl in d.get("overloads", []):
                if impl.get("ds") is not None:
                    sub({"k": "ds", "id": impl["ds"]}, sh)
                elif impl.get("expr") is not None:
                    sub(impl["expr"], sh)
                else:
                    for _, a in impl.get("args", []):
                        sub(a, sh)
        else:
            raise AssertionError(k)
        return out

    def reachable_avoiding(self, spec, avoid_ids, out=None):
        """Dataset ids reachable from spec without passing through any spec node whose id() is in avoid_ids."""
        out = set() if out is None else out
        if id(spec) in avoid_ids:
            return out
        if spec["k"] == "ds":
            did = str(spec["id"])
            if did not in out:
                out.add(did)
                for sub in dataset_children(self.datasets[did]):
                    self.reachable_avoiding(sub, avoid_ids, out)
            return out
        for c in children(spec):
            self.reachable_avoiding(c, avoid_ids, out)
        return out

    def reachable_datasets(self, spec, out=None):
        """Ids of every dataset syntactically reachable from spec."""
        out = set() if out is None else out
        for node in walk(spec):
            if node["k"] == "ds":
                did = str(node["id"])
                if did in out:
                    continue
                out.add(did)
                d = self.datasets[did]
                for sub in dataset_children(d):
                    self.reachable_datasets(sub, out)
        return out


def _impl_specs(impl):
    if impl.get("ds") is not None:
        return [{"k": "ds", "id": impl["ds"]}]
    if impl.get("expr") is not None:
        return [impl["expr"]]
    return [a for _, a in impl.get("args", [])]


def dataset_children(d):
    subs = []
    disp = d.get("dispatch")
    if isinstance(disp, dict):
        subs.append(disp)
    subs.extend(a for _, a in d.get("args", []))
    if d.get("expr") is not None:
        subs.append(d["expr"])
    for _, impl in d.get("overloads", []):
        if impl.get("ds") is not None:
            subs.append({"k": "ds", "id": impl["ds"]})
        elif impl.get("expr") is not None:
            subs.append(impl["expr"])
        else:
            subs.extend(a for _, a in impl.get("args", []))
    return subs


def children(spec):
    k = spec["k"]
    if k in ("const", "allopts", "ds"):
        return []
    if k == "opt":
        out = []
        if spec.get("dk") == "spec":
            out.append(spec["dv"])
        if spec.get("dom") and spec["dom"][0] == "spec":
            out.append(spec["dom"][1])
        return out
    if k == "tmpl":
        return [p for _, p in spec.get("params", [])]
    if k == "apply":
        out = [spec["src"]]
        if isinstance(spec["fn"], dict):
            out.extend(p for _, p in spec["fn"].get("params", []))
        return out
    if k == "bind":
        return [spec["src"]] + [b for _, b in spec["table"]] + [spec["else"]]
    if k == "switch":
        out = [spec["disp"]] if isinstance(spec["disp"], dict) else []
        out += [b for _, b in spec["table"]]
        if spec.get("default") is not None:
            out.append(spec["default"])
        return out
    if k == "case":
        out = [spec["disp"]] + [b for _, b in spec["cases"]] + [c for c in (cond_spec(spec, i) for i in range(len(spec["cases"]))) if c is not None]
        if spec.get("default") is not None:
            out.append(spec["default"])
        return out
    if k == "coalesce":
        return list(spec["members"])
    if k in ("list", "tuple", "set", "iter"):
        return list(spec["items"])
    if k == "dict":
        return [v for _, v in spec["items"]]
    if k == "dc":
        return [m for _, m in spec["members"]]
    if k == "map":
        return [i for _, i in spec["iters"]] + [spec["body"]]
    if k in ("with", "cached", "user"):
        return [spec["spec"]]
    raise AssertionError(k)


def walk(spec):
    yield spec
    for c in children(spec):
        yield from walk(c)


def kinds_of(program):
    ks = set()
    for n in walk(program["root"]):
        ks.add(n["k"])
    for d in program.get("datasets", {}).values():
        for s in dataset_children(d):
            for n in walk(s):
                ks.add(n["k"])
    return ks


def realise_iter(v):
    return v


def alias_value(a):
    """Aliases in specs are JSON: a tuple alias is written {"tuple": [...]}."""
    if isinstance(a, dict) and "tuple" in a:
        return tuple(alias_value(x) for x in a["tuple"])
    return a


def _hashable(v):
    v = alias_value(v)
    hash(v)
    return v


def _effects_off(o):
    v = U.lookup("LABREA.EFFECTS.DISABLED", o)
    return v is not U.ABSENT and bool(v)


def _leaf_shadow(P, prefix=""):
    out = set()
    for k, v in (P or {}).items():
        p = f"{prefix}.{k}" if prefix else k
        if isinstance(v, dict):
            out |= _leaf_shadow(v, p)
        else:
            out.add(p)
    return frozenset(out)


def _leaf_shadow_keys(keys):
    return frozenset(keys)


def _shadowed(key, shadow):
    """A forced leaf hides the caller's value at that path and below it."""
    for s in shadow:
        if key == s or key.startswith(s + "."):
            return True
    return False


def _template_refs(value):
    out = set()
    if isinstance(value, dict):
        for v in value.values():
            out |= _template_refs(v)
    elif isinstance(value, list):
        for v in value:
            out |= _template_refs(v)
    elif isinstance(value, str):
        out |= set(U.template_keys(value))
    return out


def related(path, key):
    """True when a change at dotted `path` can affect a read of dotted `key`."""
    return key == "*" or path == key or key.startswith(path + ".") or path.startswith(key + ".")
