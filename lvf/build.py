"""spec -> real labrea objects, every user callable a probe (DESIGN §2.2)."""
import copy
import functools
import inspect

from . import boot  # noqa: F401  (path set-up)
import labrea
from labrea import (
    AllOptions,
    Coalesce,
    Iter,
    Map,
    Option,
    Template,
    WithDefaultOptions,
    WithOptions,
    abstractdataset,
    cached,
    case,
    dataset,
    pipeline_step,
    switch,
)
from labrea.cache import MemoryCache, NoCache
from labrea.computation import CallbackEffect, Effect

from .outcome import canon, realise
from .probes import FUNCS, Log, pred
from .ref import _pid


def overload_tag(alias, impl):
    if impl.get("tag"):
        return impl["tag"]
    a = alias[0] if isinstance(alias, list) else alias
    return f"ov:{a!r}"


def _sig(names, defaults, first_positional=None):
    params = []
    if first_positional:
        params.append(inspect.Parameter(first_positional, inspect.Parameter.POSITIONAL_OR_KEYWORD))
    for n, d in zip(names, defaults):
        params.append(inspect.Parameter(n, inspect.Parameter.POSITIONAL_OR_KEYWORD, default=d))
    return inspect.Signature(params)


class _ProbeEffect(Effect):
    """A user-defined Effect (not a bare callback): the documented extension point of labrea.computation."""

    def __init__(self, fn):
        self.fn = fn

    def transform(self, value, options=None):
        self.fn(value)

    def validate(self, options):
        pass

    def keys(self, options):
        return set()

    def explain(self, options=None):
        return set()

    def __repr__(self):
        return "ProbeEffect()"


class Built:
    def __init__(self, program, log=None, cache_factory=None, share=None, mutate_args=False):
        self.program = program
        self.mutate_args = mutate_args  # user bodies / steps edit their own arguments in place (they own them)
        self.log = log if log is not None else Log()
        self.cache_factory = cache_factory
        self.ds_objs = {}  # id -> Dataset
        self.derived = {}  # (id, repr P, repr D) -> Dataset
        self.overload_ds = {}  # (id, tag) -> Dataset created by @overload
        self.caches = []  # (label, cache object)
        self.nodes = []  # (spec, object)
        self.dataset_ids = {}  # id(obj) -> dataset id (incl. derivatives, overload datasets)
        self.presets = []  # (live pre-set dict, snapshot)
        self.derived_specs = {}  # id(derived Dataset) -> (P, D)
        self.root = self.expr(program["root"])

    # -- probes -----------------------------------------------------------
    def _body(self, did, tag, argspecs):
        log = self.log
        names = [n for n, _ in argspecs]
        defaults = [self.expr(a) for _, a in argspecs]
        defaults = [e.result if i % 2 else e for i, e in enumerate(defaults)]  # (the documented typing aid returns the expression itself)
        pid = f"ds{did}:{tag}"

        mutate = self.mutate_args

        def body(**kw):
            args = [realise(kw[n]) for n in names]
            log.hit("body", pid, canon(args))
            if mutate:
                from .hostile import scribble

                for n in names:
                    scribble(kw[n])
            return (f"ds{did}", tag) + tuple(args)

        body.__signature__ = _sig(names, defaults)
        body.__name__ = body.__qualname__ = f"ds{did}_{tag}".replace(":", "_").replace("'", "")
        body.__module__ = "lvf.build"
        return body

    def _fn(self, name, pid):
        log = self.log
        f = FUNCS[name]

        def fn(x):
            log.hit("fn", pid)
            return f(x)

        fn.__name__ = f"fn_{name}"
        return fn

    def _step(self, fn):
        log = self.log
        names = [n for n, _ in fn.get("params", [])]
        defaults = [self.expr(p) for _, p in fn.get("params", [])]
        pid = _pid(fn, "st", fn["name"])
        sname = fn["name"]

        mutate = self.mutate_args

        def step(x, **kw):
            log.hit("step", pid)
            out = ("step", sname, realise(x), tuple(realise(kw[n]) for n in names))
            if mutate:
                from .hostile import scribble

                scribble(x)
                for n in names:
                    scribble(kw[n])
            return out

        step.__signature__ = _sig(names, defaults, first_positional="x")
        step.__name__ = f"step_{sname}"
        return pipeline_step(step)

    def _pred(self, name, pid):
        log = self.log
        if name.startswith(("eqopt", "eqds:")):
            # an Evaluatable condition: "the value equals the value of option K" (with / without default)
            from .ref import cond_option

            def maker(t):
                target = canon(t)

                def predicate(x):
                    log.hit("pred", pid)
                    return canon(x) == target

                return predicate

            return self.expr(cond_option(name)).apply(maker)
        p = pred(name)

        def predicate(x):
            log.hit("pred", pid)
            return p(x)

        return predicate

    # -- expressions --------------------------------------------------------
    def expr(self, s):
        obj = getattr(self, "_" + s["k"])(s)
        self.nodes.append((s, obj))
        return obj

    def _const(self, s):
        v = copy.deepcopy(s["v"])
        if s.get("as") == "tuple":
            v = tuple(v)
        # both spellings of a constant expression
        return labrea.Value(v) if len(repr(v)) % 2 else labrea.types.Evaluatable.unit(v)

    def _opt(self, s):
        kw = {}
        dk = s.get("dk", "none")
        if dk in ("const", "tmpl"):
            kw["default"] = copy.deepcopy(s["dv"])
        elif dk == "factory":
            log, fpid, dv = self.log, _pid(s, "fac", s["key"]), s["dv"]

            def factory():
                log.hit("factory", fpid)
                return copy.deepcopy(dv)

            kw["default_factory"] = factory
        elif dk == "spec":
            kw["default"] = self.expr(s["dv"])
        dom = s.get("dom")
        if dom:
            kind, payload = dom
            if kind == "container":
                kw["domain"] = copy.deepcopy(payload)
            elif kind == "pred":
                log, dpid, p = self.log, _pid(s, "dom", s["key"]), pred(payload)

                def dompred(x):
                    log.hit("dompred", dpid)
                    return p(x)

                kw["domain"] = dompred
            else:
                kw["domain"] = self.expr(payload)
        if s.get("type"):
            return Option[{"int": int, "str": str, "object": object}[s["type"]]](s["key"], **kw)
        via = s.get("via")
        if via and via.startswith("ns-") and s["key"].count(".") == 1:
            head, member = s["key"].split(".")
            if via == "ns-auto":
                body = {member: Option.auto(doc="declared with Option.auto", **kw)}
            elif via == "ns-option":
                body = {member: Option(member, **kw)}  # (a key relative to the namespace)
            elif via == "ns-plain":
                body = {member: kw["default"]}
            else:
                body = {"__annotations__": {member: object}}
            ns = Option.namespace(head)(type(head, (), body))
            return getattr(ns, member)
        return Option(s["key"], **kw)

    def _tmpl(self, s):
        return Template(s["text"], **{n: self.expr(p) for n, p in s.get("params", [])})

    def _apply(self, s):
        src = self.expr(s["src"])
        fn = s["fn"]
        if isinstance(fn, dict):
            return src >> self._step(fn)
        f = self._fn(fn, _pid(s, "fn", fn))
        return src.apply(f) if s.get("form") == "apply" else src >> f

    def _bind(self, s):
        src = self.expr(s["src"])
        table = [(canon(v), self.expr(b)) for v, b in s["table"]]
        other = self.expr(s["else"])
        log, pid = self.log, _pid(s, "bd", "bind")

        def binder(x):
            log.hit("bindfn", pid)
            cx = canon(x)
            for cv, b in table:
                if cv == cx:
                    return b
            return other

        return src.bind(binder)

    def _switch(self, s):
        disp = s["disp"] if isinstance(s["disp"], str) else self.expr(s["disp"])
        def branch(b):
            if s.get("plain_values") and b["k"] == "const" and not isinstance(b["v"], (list, dict)):
                return copy.deepcopy(b["v"])  # switch accepts plain values next to Evaluatables
            return self.expr(b)

        table = {}
        for v, b in s["table"]:
            table[v] = branch(b)
        if s.get("default") is not None:
            return switch(disp, table, branch(s["default"]))
        return switch(disp, table)

    def _case(self, s):
        c = case(self.expr(s["disp"]))
        for i, (p, res) in enumerate(s["cases"]):
            pid = f"cp{s['n']}.{i}" if "n" in s else f"cp:{p}"
            c = c.when(self._pred(p, pid), self.expr(res))
        if s.get("default") is not None:
            c = c.otherwise(self.expr(s["default"]))
        return c

    def _coalesce(self, s):
        return Coalesce(*[self.expr(m) for m in s["members"]])

    def _list(self, s):
        return labrea.evaluatable_list(*[self.expr(i) for i in s["items"]])

    def _tuple(self, s):
        return labrea.evaluatable_tuple(*[self.expr(i) for i in s["items"]])

    def _set(self, s):
        return labrea.evaluatable_set(*[self.expr(i) for i in s["items"]])

    def _dict(self, s):
        return labrea.evaluatable_dict({k: self.expr(v) for k, v in s["items"]})

    def _iter(self, s):
        return Iter(*[self.expr(i) for i in s["items"]])

    def _map(self, s):
        m = Map(self.expr(s["body"]), {k: self.expr(i) for k, i in s["iters"]})
        return m.values if s.get("values") else m

    def _with(self, s):
        inner = self.expr(s["spec"])
        P = self._preset(s["P"])
        if s.get("force", True):
            return WithOptions(inner, P)
        return WithDefaultOptions(inner, P)

    def _cached(self, s):
        cache = self.cache_factory("cached") if self.cache_factory else MemoryCache()
        self.caches.append(("cached", cache))
        if s.get("form") == "decorator":
            return cached(cache)(self.expr(s["spec"]))
        return cached(self.expr(s["spec"]), cache)

    def _allopts(self, s):
        return AllOptions

    def _user(self, s):
        child = self.expr(s["spec"])
        cls = _user_wrapper(s.get("depth", 1))
        return cls(child)

    def _dc(self, s):
        from labrea import datasetclass

        names = [n for n, _ in s["members"]]
        base_n = s.get("base", 0)

        def body(members):
            ns = {n: self.expr(sp) for n, sp in members}
            ns["__annotations__"] = {n: object for n, _ in members}
            return ns

        bases = ()
        if base_n:
            base = type(f"Base{s['n']}", (), body(s["members"][:base_n]))
            bases = (datasetclass(base) if s.get("base_decorated") else base,)
        cls = datasetclass(type(f"DC{s['n']}", bases, body(s["members"][base_n:])))

        def unpack(instance):
            return ("dc", tuple((n, realise(getattr(instance, n))) for n in sorted(names)))

        return cls >> unpack

    # -- datasets -----------------------------------------------------------
    def _ds(self, s):
        did = str(s["id"])
        base = self.dataset(did)
        P, D, chain = s.get("P"), s.get("D"), s.get("chain")
        if not P and not D and not chain:
            return base
        key = (did, repr(P), repr(D), repr(chain))
        if key not in self.derived:
            obj = base
            if P:
                obj = obj.with_options(self._preset(P))
            if D:
                obj = obj.with_default_options(self._preset(D))
            for which, opts in chain or []:
                obj = obj.with_options(self._preset(opts)) if which == "P" else obj.with_default_options(self._preset(opts))
            self.derived[key] = obj
            self.dataset_ids[id(obj)] = did
            self.derived_specs[id(obj)] = copy.deepcopy({k: v for k, v in s.items() if k in ("k", "id", "P", "D", "chain")})
        return self.derived[key]

    def _preset(self, P):
        live = copy.deepcopy(P)
        self.presets.append((live, copy.deepcopy(P)))
        return live

    def dataset(self, did):
        did = str(did)
        if did in self.ds_objs:
            return self.ds_objs[did]
        d = self.program["datasets"][did]
        kw = {}
        disp = d.get("dispatch")
        if disp is not None:
            kw["dispatch"] = disp if isinstance(disp, str) else self.expr(disp)
        if d.get("options"):
            kw["options"] = self._preset(d["options"])
        if d.get("default_options"):
            kw["default_options"] = self._preset(d["default_options"])
        if d.get("callback"):
            log, name, pid = self.log, d["callback"], f"cb{did}"

            def callback(value):
                log.hit("callback", pid)
                return ("cb", name, value)

            if name == "c2":
                # any callable is a legal callback: a functools.partial / a callable object has no __name__
                callback = functools.partial(_callback_impl, log, pid, name) if int(did) % 2 else _CallbackObject(log, pid, name)
            kw["callback"] = callback
        if d.get("effects"):
            kw["effects"] = [self._effect(did, i) for i, _ in enumerate(d["effects"])]
            how = (d.get("via") or {}).get("effect_objects")
            if how == "callback-effect":
                kw["effects"] = [CallbackEffect(e) for e in kw["effects"]]
            elif how == "effect-subclass":
                kw["effects"] = [_ProbeEffect(e) for e in kw["effects"]]
        kind = d.get("cache", "memory")
        shared_factory = None
        if self.cache_factory:
            cache = self.cache_factory(kind)
        elif kind == "nocache":
            cache = NoCache()
        elif kind == "factory":
            # a configured decorator stored and reused for several datasets: cache=<callable> means one cache each
            if getattr(self, "_memo_factory", None) is None:
                self._memo_factory = dataset(cache=MemoryCache)
            shared_factory = self._memo_factory
            cache = None
        else:
            cache = MemoryCache()
        if cache is not None:
            kw["cache"] = cache
            self.caches.append((f"ds{did}", cache))
        via = d.get("via") or {}  # rarely used public entry points (same semantics, other code paths)
        if d.get("expr") is not None:
            definition = self.expr(d["expr"])
        else:
            definition = self._body(did, "default", d.get("args", []))
            if via.get("defaults") and d.get("args"):
                # argument expressions supplied through where(...) / defaults= instead of the signature
                sig = definition.__signature__
                supplied = {n: p.default for n, p in list(sig.parameters.items())[::2]}
                definition.__signature__ = sig.replace(parameters=[
                    (p.replace(default=inspect.Parameter.empty) if n in supplied else p).replace(kind=inspect.Parameter.KEYWORD_ONLY)
                    for n, p in sig.parameters.items()])
                # (parameters without default must come first in a valid signature: keep order by making the
                #  remaining ones keyword-only is not needed because lift() only reads names and defaults)
                if via["defaults"] == "var_kwargs":
                    # the supplied parameters are not in the signature at all: the body takes **rest and gets them
                    # through defaults= (lift() passes unknown keys on only when the function accepts **kwargs)
                    definition.__signature__ = sig.replace(parameters=[p.replace(kind=inspect.Parameter.KEYWORD_ONLY) for n, p in sig.parameters.items() if n not in supplied]
                                                           + [inspect.Parameter("rest", inspect.Parameter.VAR_KEYWORD)])
                if via["defaults"] in ("kwarg", "var_kwargs"):
                    kw["defaults"] = supplied
                if via["defaults"] == "lifted":
                    # the body is lifted by hand (decorator-with-defaults form) and the dataset wraps the resulting expression
                    definition = labrea.application.FunctionApplication.lift(**supplied)(definition)
        factory = abstractdataset if d.get("abstract") else dataset
        if shared_factory is not None:
            factory = shared_factory(abstract=True) if d.get("abstract") else shared_factory
        late_cache = late_effects = None
        if via.get("nocache_property") and kind == "nocache" and not self.cache_factory:
            kw.pop("cache", None)
            factory = factory.nocache
        elif via.get("set_cache") and "cache" in kw and shared_factory is None:
            late_cache = kw.pop("cache")
        if via.get("add_effects") and kw.get("effects"):
            late_effects = kw.pop("effects")
        if via.get("defaults") == "where" and d.get("expr") is None and d.get("args"):
            factory = factory.where(**supplied)
        form = d.get("form", "decorator")
        if form == "decorator":
            obj = factory(**kw)(definition)
        else:
            obj = factory(definition, **kw)
        if late_cache is not None:
            obj.set_cache(late_cache if via["set_cache"] == "instance" else (lambda c=late_cache: c))
        if late_effects:
            if len(late_effects) > 1 and via["add_effects"] == "one-by-one":
                for e_ in late_effects:
                    obj.add_effect(e_)
            else:
                obj.add_effects(*late_effects)
        if via.get("nocache_property") and kind == "nocache" and not self.cache_factory:
            self.caches = [(l, c) for l, c in self.caches if l != f"ds{did}"] + [(f"ds{did}", obj.cache)]
        self.ds_objs[did] = obj
        self.dataset_ids[id(obj)] = did
        if shared_factory is not None:
            self.caches.append((f"ds{did}", obj.cache))
        if d.get("effects_disabled"):
            obj.disable_effects()
        for alias, impl in d.get("overloads", []):
            self.register(did, alias, impl)
        return obj

    def _effect(self, did, i):
        log, pid = self.log, f"ef{did}.{i}"

        def effect(value):
            log.hit("effect", pid, canon(value))
            return ("returned-by-effect", pid)  # (whatever an effect returns is nobody's business)

        return effect

    def register(self, did, alias, impl):
        """Register one overload on a built dataset (also used mid-history by C07)."""
        from .ref import alias_value

        obj = self.dataset(did)
        tag_alias = alias
        alias = [alias_value(a) for a in alias] if isinstance(alias, list) else alias_value(alias)
        if impl.get("ds") is not None:
            other = self.dataset(impl["ds"])
            obj.overload(alias)(other)
        elif impl.get("expr") is not None:
            e = self.expr(impl["expr"])
            for a in alias if isinstance(alias, list) else [alias]:
                obj.register(a, e)
        else:
            tag = overload_tag(tag_alias, impl)
            body = self._body(did, tag, impl.get("args", []))
            new = obj.overload(alias)(body)
            self.overload_ds[(did, tag)] = new
            self.dataset_ids[id(new)] = f"{did}/{tag}"
            self.caches.append((f"ds{did}/{tag}", new.cache))


class _UserWrapper(labrea.types.Evaluatable):
    """What a user's own Evaluatable typically looks like: holds another one and passes the four operations on."""

    def __init__(self, inner):
        self.inner = inner

    def evaluate(self, options):
        return self.inner.evaluate(options)

    def validate(self, options):
        return self.inner.validate(options)

    def keys(self, options):
        return self.inner.keys(options)

    def explain(self, options=None):
        return self.inner.explain(options)

    def __repr__(self):
        return f"{type(self).__name__}({self.inner!r})"


class _UserWrapperChild(_UserWrapper):
    """A subclass of the user's class that overrides two operations and inherits the others (no super() calls: a
    cooperative super().evaluate() recurses for ever - DESIGN section 6, observations)."""

    def evaluate(self, options):
        return self.inner.evaluate(options)

    def keys(self, options):
        return set(self.inner.keys(options))


def _user_wrapper(depth):
    return _UserWrapperChild if depth > 1 else _UserWrapper


def _callback_impl(log, pid, name, value):
    log.hit("callback", pid)
    return ("cb", name, value)


class _CallbackObject:
    """A callback that is an object with __call__ (no __name__, no __qualname__ of its own)."""

    def __init__(self, log, pid, name):
        self.log, self.pid, self.name = log, pid, name

    def __call__(self, value):
        return _callback_impl(self.log, self.pid, self.name, value)


class BuildFailed(Exception):
    """Constructing a legal expression graph raised: nothing about its evaluation can hold (reported by lvf.main)."""

    def __init__(self, program, error):
        super().__init__(f"{type(error).__name__}: {error}")
        self.program, self.error = program, error


def build(program, log=None, cache_factory=None, mutate_args=False):
    try:
        return Built(program, log, cache_factory, mutate_args=mutate_args)
    except RecursionError:
        raise
    except Exception as e:  # noqa: BLE001
        raise BuildFailed(copy.deepcopy(program), e) from e
